"""Rules over the compiler crate (`eqlog`) from MIR facts:
M-DIGEST (C12), M-PANIC / M-LINES (C11), M-FUNCDOM (C06), M-DET / M-PAR / M-DIRTAINT (C13, C20), M-EMIT (C19)."""
import re

from .core import RuleResult
from .emodel import AnchorError
from .mir import Facts, Taint, callee, op_place, strip_generics

short = strip_generics


def _ok_exits(b):
    """Blocks that assign `Result::Ok(..)` to the return place."""
    out = []
    for i, bl in enumerate(b.blocks):
        if bl.get("cleanup"):
            continue
        for s in bl["s"]:
            if s.get("lhs") and s["lhs"][0] == 0 and not s["lhs"][1] and s.get("rv", {}).get("k") == "agg" and s["rv"]["ak"].endswith("Result:Ok"):
                out.append(i)
    return out


def _named_locals(b, names):
    out = {}
    for i, (ty, name) in enumerate(b.locals):
        if name in names:
            out[i] = names[name]
    return out


def _reaches(F, body, target_short):
    """Does `body` (transitively, within the crate) call a function whose generic-free path is target_short?"""
    seen = F.reachable_from([body.path])
    for p in seen:
        bd = F.bodies.get(p)
        if bd is None:
            continue
        for _bb, t in bd.calls():
            if short(callee(t)) == target_short:
                return True
    return False


FS_MUTATORS = ("std::fs::write", "std::fs::remove_file", "std::fs::rename", "std::fs::File::create", "std::fs::copy", "std::fs::remove_dir_all",
               "std::fs::remove_dir", "std::fs::OpenOptions::open", "std::fs::File::create_new", "std::fs::hard_link", "std::fs::set_permissions")
PROCESS_CALLS = ("std::process::Command::status", "std::process::Command::output", "std::process::Command::spawn")


def _closure_args_reaching(F, b, t, target_short):
    """Closures passed (as operands) to call `t` of body `b` that reach target_short."""
    hit = False
    for a in t["args"]:
        pl = op_place(a)
        if a.get("closure"):
            cb = F.bodies.get(a["closure"])
            if cb and (_reaches(F, cb, target_short)):
                hit = True
        if pl is not None:
            ty = b.local_ty(pl[0])
            m = re.search(r"\{closure@([^}]*)\}|Closure\(DefId", ty)
            for cl in F.closures_of(b):
                if cl.path.split("::")[-1] in ty or ("closure" in ty and cl.file in ty and (":%d:" % cl.line) in ty):
                    if _reaches(F, cl, target_short):
                        hit = True
    return hit


def _mutating_functions(F):
    """Generic-free names of crate functions that (transitively) mutate the file system or run a process."""
    direct = set()
    for p, bd in F.bodies.items():
        for _bb, tm in bd.calls():
            cs = short(callee(tm))
            if cs in FS_MUTATORS or cs in PROCESS_CALLS:
                direct.add(p)
    out = set()
    for p in F.bodies:
        if F.bodies[p].d["kind"] == "Closure":
            continue
        if F.reachable_from([p]) & direct:
            out.add(short(p))
    return out


def rule_digest(F):
    """M-DIGEST: invalidate-before-mutate / validate-last on every path (= every crash point)."""
    res = RuleResult("M-DIGEST")
    # ---------------- process_file
    b = F.one("build::process_file")
    mutating = _mutating_functions(F)
    INV, VAL, OUT = [], [], []
    for bb, t in b.calls():
        c = short(callee(t))
        if c == "build::remove_digest":
            INV.append(bb)
        elif c == "build::write_digest":
            VAL.append(bb)
        elif c in FS_MUTATORS or c in PROCESS_CALLS or c in mutating:
            OUT.append(bb)
        elif any(_closure_args_reaching(F, b, t, mfn) for mfn in mutating if mfn not in ("build::remove_digest", "build::write_digest")):
            OUT.append(bb)
    if not INV or not VAL or len(OUT) < 2:
        raise AnchorError("process_file: effect sites not found (INV=%s VAL=%s OUT=%s)" % (INV, VAL, OUT))
    oks = _ok_exits(b)
    _digest_protocol(res, b, INV, VAL, OUT, oks, "process_file")
    # (h) the up-to-date return is taken only on a comparison of the stored digest with the digest of the current source
    _skip_needs_comparison(res, b, oks, INV, {"build::read_digest": "STORED", "build::digest_source": "CURRENT"}, [("STORED", "CURRENT")], "process_file")
    res.sample({"fn": "process_file", "INV": INV, "VAL": VAL, "OUT": OUT, "ok_exits": oks})
    # ---------------- compile_component_rlib
    c = F.one("build::compile_component_rlib")
    # which local is the component digest's path: the PathBuf that the (only) fs::remove_file of this function is given; a
    # local named digest_path if the function removes nothing (then the rule below reports the missing invalidation)
    cand = {i: "P%d" % i for i, (ty, name) in enumerate(c.locals) if name and "PathBuf" in ty}
    labels = {}
    if cand:
        probe = Taint(c, cand)
        rm = [tm for _bb, tm in c.calls() if short(callee(tm)) == "std::fs::remove_file"]
        hit = set()
        for tm in rm:
            hit |= {l for l in probe.read_op(tm["args"][0]) if l.startswith("P")}
        if len(hit) == 1:
            labels = {int(next(iter(hit))[1:]): "DIGEST"}
    if not labels:
        labels = _named_locals(c, {"digest_path": "DIGEST"})
    if not labels:
        raise AnchorError("compile_component_rlib: the path of the component digest was not identified")
    t = Taint(c, labels)
    INV, VAL, OUT = [], [], []
    status_bb, success_bb = None, None
    for bb, tm in c.calls():
        cs = short(callee(tm))
        if cs in FS_MUTATORS:
            is_digest = "DIGEST" in t.read_op(tm["args"][0])
            if cs == "std::fs::remove_file" and is_digest:
                INV.append(bb)
            elif cs == "std::fs::write" and is_digest:
                VAL.append(bb)
            else:
                OUT.append(bb)
        elif cs in PROCESS_CALLS:
            OUT.append(bb)
            status_bb = bb
        elif cs == "std::process::ExitStatus::success":
            success_bb = bb
    if not VAL or len(OUT) < 2 or status_bb is None:
        raise AnchorError("compile_component_rlib: effect sites not found (INV=%s VAL=%s OUT=%s)" % (INV, VAL, OUT))
    oks = _ok_exits(c)
    _digest_protocol(res, c, INV, VAL, OUT, oks, "compile_component_rlib")
    # (d) VAL only after a successful rustc
    for v in VAL:
        if success_bb is not None and c.dominates(status_bb, v) and c.dominates(success_bb, v):
            # the failing branch of the success test must not reach VAL
            sw = None
            for x in c.reach_after(success_bb) | {success_bb}:
                tt = c.blocks[x]["t"]
                if tt["k"] == "switch" and c.dominates(success_bb, x):
                    sw = x
                    break
            if sw is not None:
                succs = c.succ(sw)
                reach_val = [s for s in succs if v in c.reach([s])]
                if len(reach_val) < len(succs):
                    res.ok()
                else:
                    res.bad("M-DIGEST:compile_component_rlib:digest-written-on-rustc-failure", c.where(v), "the component digest is written on both outcomes of ExitStatus::success()")
            else:
                res.bad("M-DIGEST:compile_component_rlib:success-not-tested", c.where(v), "result of ExitStatus::success() is not branched on before the component digest is written")
        else:
            res.bad("M-DIGEST:compile_component_rlib:digest-not-after-rustc", c.where(v), "the component digest write is not dominated by running rustc and testing its exit status")
    # (e) the skip return needs both the digest comparison and the existence of the library
    skip = [o for o in oks if not any(o in c.reach_after(x) for x in OUT)]
    exists = [bb for bb, tm in c.calls() if short(callee(tm)) == "std::path::Path::exists"]
    parse = [bb for bb, tm in c.calls() if short(callee(tm)) == "build::parse_digest_hex"]
    for sk in skip:
        # dominated by the exists() call, and reachable only when a digest was parsed (the parse call lies on some path to it and
        # the NotFound arm sets the flag false): checked as: exists dominates skip, parse reaches skip
        if any(c.dominates(e, sk) for e in exists) and any(sk in c.reach_after(p) for p in parse):
            res.ok()
        else:
            res.bad("M-DIGEST:compile_component_rlib:skip-condition", c.where(sk), "the component is skipped without both the digest comparison and rlib_path.exists()")
    _skip_needs_comparison(res, c, oks, INV, {"build::parse_digest_hex": "STORED", "build::digest_source": "CURRENT", "std::path::Path::exists": "EXISTS"},
                           [("STORED", "CURRENT"), ("EXISTS",)], "compile_component_rlib", only=skip)
    if not skip:
        res.notes.append("compile_component_rlib has no skip return")
    res.sample({"fn": "compile_component_rlib", "INV": INV, "VAL": VAL, "OUT": OUT, "ok_exits": oks, "skip": skip})
    # ---------------- (f) who may touch the file system / spawn processes
    # every function that mutates the file system or spawns a process runs only inside process_file: with process_file cut
    # out of the call graph, none of them is reachable from any other function of the crate
    pf_path = F.one("build::process_file").path
    g = F.callgraph()
    direct = {}
    for p, bd in F.bodies.items():
        for bb, tm in bd.calls():
            cs = short(callee(tm))
            if cs in FS_MUTATORS or cs in PROCESS_CALLS or cs == "std::process::Command::new":
                direct.setdefault(p, []).append((bb, cs))
    inside = F.reachable_from([pf_path])
    outside_roots = [p for p in F.bodies if p not in inside]
    seen = set()
    stack = list(outside_roots)
    while stack:
        n = stack.pop()
        if n in seen or n == pf_path:
            continue
        seen.add(n)
        for c in g.get(n, ()):
            if c in F.bodies:
                stack.append(c)
            else:
                for bx in F.by_short.get(short(c), []):
                    stack.append(bx.path)
    for p, sites in direct.items():
        bd = F.bodies[p]
        for bb, cs in sites:
            if p in seen:
                res.bad("M-DIGEST:who-may-call:%s" % cs.rsplit("::", 1)[-1], bd.where(bb), "%s calls %s and is reachable without passing through process_file (outside the digest protocol)" % (p, cs))
            else:
                res.ok()
    # ---------------- (g) the component directory is enumerated: it must be exact
    pl = F.one("build::print_cargo_link_directives")
    enumerates = any(short(callee(tm)) == "std::fs::read_dir" for _bb, tm in pl.calls())
    if enumerates:
        # between the per-module writes and the enumeration there must be a removal of entries of other builds
        tfe = [bb for bb in OUT_process_file_component(F)]
        b = F.one("build::process_file")
        prints = [bb for bb, tm in b.calls() if short(callee(tm)) == "build::print_cargo_link_directives"]
        removers = []
        for bb, tm in b.calls():
            cs = short(callee(tm))
            cb = F.find(cs)
            if cs == "std::fs::remove_file" or (cb and cs not in ("build::remove_digest",) and any(short(callee(t2)) in ("std::fs::remove_file", "std::fs::remove_dir_all") for x in cb for _b2, t2 in x.calls())):
                removers.append(bb)
        okg = True
        for pr in prints:
            for o in tfe:
                if pr in b.reach_after(o):
                    # every path from the component writes to this enumeration passes a remover
                    if pr in b.reach_after(o, avoid=removers):
                        okg = False
        if okg and tfe:
            res.ok()
        else:
            res.bad("M-DIGEST:component-dir:stale-entries-enumerated", pl.where(),
                    "print_cargo_link_directives links every .rlib found in the component directory, but process_file never removes component files of rules that no longer exist")
    else:
        res.ok()
    return res


def OUT_process_file_component(F):
    b = F.one("build::process_file")
    out = []
    for bb, t in b.calls():
        if short(callee(t)) == "build::compile_component_rlib" or _closure_args_reaching(F, b, t, "build::compile_component_rlib"):
            out.append(bb)
    return out


def _skip_needs_comparison(res, b, oks, INV, sources, need, fname, only=None):
    """Every Ok return that is not preceded by an invalidation is control-dependent on values derived from all of `need`:
    some switch dominating it (and deciding it: only one successor reaches it without passing INV) has a discriminant that
    carries the label; all labels must be covered by such switches."""
    srcs = {}
    for bb, tm in b.calls():
        lab = sources.get(short(callee(tm)))
        if lab:
            srcs[tm["dest"][0]] = lab
    if set(srcs.values()) != set(sources.values()):
        raise AnchorError("%s: digest sources %s not all found (%s)" % (fname, sorted(sources.values()), sorted(set(srcs.values()))))
    t = Taint(b, srcs)
    exits = [x for x in oks if not any(b.dominates(i, x) for i in INV)]
    if only is not None:
        exits = [x for x in exits if x in only]
    for x in exits:
        deciding = []
        for sw, bl in enumerate(b.blocks):
            tt = bl["t"]
            if tt["k"] != "switch" or not b.dominates(sw, x):
                continue
            succs = b.succ(sw)
            reach = [s_ for s_ in succs if x in b.reach([s_], avoid=set(INV))]
            if len(reach) < len(succs):
                deciding.append(t.read_op(tt["d"]))
        # each group of labels must meet in ONE deciding test (a comparison of the stored with the current digest)
        missing = [grp for grp in need if not any(all(lab in labs for lab in grp) for labs in deciding)]
        if missing:
            res.bad("M-DIGEST:%s:skip-not-decided-by:%s" % (fname, "/".join("+".join(g) for g in missing)), b.where(x),
                    "%s returns Ok without rebuilding on a path not decided by a test that combines %s" % (fname, " and ".join("+".join(g) for g in missing)))
        else:
            res.ok()


def _digest_protocol(res, b, INV, VAL, OUT, oks, fname):
    # (a)+(c): every OUT and every VAL is dominated by an INV
    for o in OUT:
        if any(b.dominates(i, o) for i in INV):
            res.ok()
        else:
            res.bad("M-DIGEST:%s:output-before-invalidation" % fname, b.where(o),
                    "%s: %s can run without the digest having been removed first (a crash here leaves a valid digest next to new output)" % (fname, short(callee(b.term(o)))))
    for v in VAL:
        if any(b.dominates(i, v) for i in INV):
            res.ok()
        else:
            res.bad("M-DIGEST:%s:validation-without-invalidation" % fname, b.where(v), "%s: the digest is written on a path that never removed it" % fname)
    # (b) from every OUT every path to an Ok return passes VAL
    for o in OUT:
        reach = b.reach_after(o, avoid=VAL)
        bad = [x for x in oks if x in reach]
        if bad:
            res.bad("M-DIGEST:%s:success-without-validation" % fname, b.where(o), "%s: after %s an Ok return is reachable without writing the digest" % (fname, short(callee(b.term(o)))))
        else:
            res.ok()
    # no OUT after VAL
    for v in VAL:
        after = b.reach_after(v)
        late = [o for o in OUT if o in after]
        if late:
            res.bad("M-DIGEST:%s:output-after-validation" % fname, b.where(late[0]), "%s: %s runs after the digest was written" % (fname, short(callee(b.term(late[0])))))
        else:
            res.ok()
    # the no-op path touches nothing: Ok exits not dominated by INV see no INV/VAL/OUT
    for x in oks:
        if not any(b.dominates(i, x) for i in INV):
            # paths to x avoiding INV must avoid OUT/VAL: x reachable from entry avoiding INV; check that no OUT/VAL block reaches x avoiding INV
            pre = b.reach([0], avoid=INV)
            if x in pre:
                touched = [o for o in OUT + VAL if o in pre and x in b.reach_after(o, avoid=INV)]
                if touched:
                    res.bad("M-DIGEST:%s:noop-path-mutates" % fname, b.where(touched[0]), "%s: the up-to-date path performs %s" % (fname, short(callee(b.term(touched[0])))))
                else:
                    res.ok()


# ---------------------------------------------------------------------------

PANIC_ROOTS = (
    "error::CompileErrorWithContext::fmt",
    "source_display::SourceDisplay::fmt",
    "error::CompileError::fmt",
    "error::CompileError::from",
    "build::whipe_comments",
    "source_display::line_locations",
    "source_display::intersecting_line_locations",
)



def panic_inventory(F, roots=PANIC_ROOTS):
    root_paths = []
    for r in roots:
        bs = F.find(r)
        root_paths += [b.path for b in bs]
    reach = F.reachable_from(root_paths)
    inv = {}
    for p in sorted(reach):
        b = F.bodies.get(p)
        if b is None:
            continue
        for bb, bl in enumerate(b.blocks):
            if bl.get("cleanup"):
                continue
            t = bl["t"]
            entry = None
            if t["k"] == "call":
                c = short(callee(t))
                raw = callee(t)
                if "panicking::" in c or c.endswith("::begin_panic") or c.endswith("panic_fmt") or c.endswith("::unreachable_display"):
                    entry = ("panic", c)
                elif re.search(r"(option::Option|result::Result)::(unwrap|expect)$", c):
                    entry = (c.rsplit("::", 1)[-1], c)
                elif c.endswith("ops::Index::index") or c.endswith("ops::IndexMut::index_mut") or re.search(r"::index(_mut)?$", c) and ("slice" in c or "str" in c or "Index" in raw):
                    entry = ("index", short(t.get("raw") or c) + "<" + _first_generic(t.get("g", "")) + ">")
            elif t["k"] == "assert":
                entry = ("assert:" + t["msg"], "")
            if entry:
                inv.setdefault(entry, []).append((short(p), b.where(bb), bb, p))
    return root_paths, reach, inv


def _first_generic(g):
    m = re.match(r"^\[([^,\]]*)", g)
    return m.group(1).strip() if m else ""


def rule_panic(F):
    res = RuleResult("M-PANIC")
    roots, reach, inv = panic_inventory(F)
    if len(roots) < 5:
        raise AnchorError("diagnostic entry points not found: %s" % roots)
    for (kindv, c), sites in sorted(inv.items()):
        fns = sorted({s[0] for s in sites})
        for fn in fns:
            key = (kindv, c, fn.split("::{closure#")[0])
            w = [s[1] for s in sites if s[0] == fn][0]
            if key in PANIC_AUDITED_SITES:
                reason, pre = PANIC_AUDITED_SITES[key]
                # an entry excuses the sites that were read, not every later site of the same kind in the same function
                nsites = len([s for s in sites if s[0].split("::{closure#")[0] == key[2]])
                if fn == key[2] or not any(s[0] == key[2] for s in sites):
                    if nsites > PANIC_AUDITED_COUNT.get(key, 1):
                        res.bad("M-PANIC:%s:%s:%s:more-sites-than-audited" % (kindv, c.rsplit("::", 2)[-1] if c else "", key[2]), w,
                                "diagnostic path: %d sites of %s%s in %s, the audited table covers %d (%s)"
                                % (nsites, kindv, (" " + c) if c else "", key[2], PANIC_AUDITED_COUNT.get(key, 1), reason))
                if pre is None:
                    res.ok()
                else:
                    okp = True
                    for s in sites:
                        if s[0] != fn:
                            continue
                        if not pre(F, F.bodies[s[3]], s[2]):
                            okp = False
                    if okp:
                        res.ok()
                    else:
                        res.bad("M-PANIC:%s:%s:%s:precondition" % (kindv, c.rsplit("::", 2)[-1] if c else "", key[2]), w,
                                "diagnostic path: %s in %s is audited as unreachable only under a structural precondition that no longer holds (%s)" % (kindv, fn, reason))
            else:
                res.bad("M-PANIC:%s:%s:%s" % (kindv, c.rsplit("::", 2)[-1] if c else "", fn.split("::{closure#")[0]), w,
                        "diagnostic path: %s%s in %s is not in the audited table of operations that cannot fail" % (kindv, (" " + c) if c else "", fn))
    res.sample({"roots": roots, "reachable_bodies": len(reach), "inventory": [[k[0], k[1], len(v)] for k, v in sorted(inv.items())][:12]})
    res.counts["reachable_bodies"] = len(reach)
    return res


def _requires_end_clamp(F, body, bb):
    """The `no line intersects the location` panic is unreachable only because the location is clamped to the source
    first: a comparison involving `source.len()` must dominate it."""
    lens = [t["dest"][0] for _b, t in body.calls() if short(callee(t)).endswith("str::len")]
    if not lens:
        return False
    tn = Taint(body, {l: "LEN" for l in lens})
    for i, bl in enumerate(body.blocks):
        for s in bl["s"]:
            rv = s.get("rv")
            if rv and rv.get("k") == "bin" and rv["op"] in ("Ge", "Gt", "Le", "Lt") and ("LEN" in tn.read_op(rv["a"]) or "LEN" in tn.read_op(rv["b"])):
                if body.dominates(i, bb):
                    return True
    return False


# (kind, callee, function) -> (reason, optional structural precondition); audited by reading the code of the working tree
PANIC_AUDITED_SITES = {
    ("assert:Overflow", "", "error::CompileError::from"):
        ("`location + 1` on a byte offset of the source text: overflows only for a source of usize::MAX bytes", None),
    ("assert:Overflow", "", "source_display::SourceDisplay::fmt"):
        ("line number `i + 1` and `max_line_num_digits - line_num_str.len()` where the number printed is at most the maximum", None),
    ("assert:Overflow", "", "source_display::line_locations"):
        ("running offset `pos += line.len() + 1` is bounded by the source length + 1", None),
    ("index", "std::ops::Index::index<str>", "build::whipe_comments"):
        ("`line[0..i]` with i from str::find and `line[content_end..]` with content_end the length after trimming ASCII terminators: char boundaries", None),
    ("index", "std::ops::Index::index<str>", "source_display::SourceDisplay::fmt"):
        ("`source[line_begin..line_end]` with bounds from line_locations, which cuts only at \\n and \\r (ASCII); M-LINES forbids offsets computed from lines()", None),
    ("panic", "core::panicking::panic", "grammar_util::Location::intersect"):
        ("debug_assert!(self.is_empty() || other.is_empty()) in the else branch of `if !self.is_empty() && !other.is_empty()`: a tautology", None),
    ("unwrap", "std::option::Option::unwrap", "source_display::SourceDisplay::fmt"):
        ("`nums_locs.clone().next().unwrap()` after the maximum over the same (cloned) iterator was Some: the iterator is non-empty", None),
}


# number of sites each entry was audited for (counted on the tree the entry was written against); fewer is fine
PANIC_AUDITED_COUNT = {
    ("assert:Overflow", "", "error::CompileError::from"): 4,
    ("assert:Overflow", "", "source_display::SourceDisplay::fmt"): 3,
    ("assert:Overflow", "", "source_display::line_locations"): 3,
    ("index", "std::ops::Index::index<str>", "build::whipe_comments"): 2,
    ("index", "std::ops::Index::index<str>", "source_display::SourceDisplay::fmt"): 1,
    ("panic", "core::panicking::panic", "grammar_util::Location::intersect"): 1,
    ("unwrap", "std::option::Option::unwrap", "source_display::SourceDisplay::fmt"): 1,
}


def rule_lines(F):
    """M-LINES: bug patterns around str::lines() (expected count 0)."""
    res = RuleResult("M-LINES")
    LINES = "core::str::lines"
    n = 0
    for p, b in sorted(F.bodies.items()):
        if b.d["kind"] == "Closure":
            continue
        group = [b] + F.closures_of(b)
        calls_lines = [bd for bd in group for _bb, t in bd.calls() if short(callee(t)).endswith("str::lines")]
        if not calls_lines:
            continue
        n += 1
        # (i) running offset: a member of the group adds str::len of an item and a constant to the same accumulator
        for bd in group:
            lens = [t["dest"][0] for _bb, t in bd.calls() if short(callee(t)).endswith("str::len")]
            if not lens:
                continue
            t = Taint(bd, {l: "LEN" for l in lens})
            const_adds, len_adds = [], []
            for bl in bd.blocks:
                for s in bl["s"]:
                    rv = s.get("rv")
                    if rv and rv.get("k") == "bin" and rv["op"].startswith("Add"):
                        ops = [rv["a"], rv["b"]]
                        if any(o.get("k") == "const" for o in ops):
                            const_adds.append(s)
                        if any("LEN" in t.read_op(o) for o in ops if o.get("k") != "const"):
                            len_adds.append(s)
            if const_adds and len_adds:
                res.bad("M-LINES:offset-from-lines-plus-constant", bd.where(),
                        "%s computes byte offsets from str::lines() item lengths plus a constant terminator width (lines() strips \\n, \\r\\n or nothing)" % bd.path)
            else:
                res.ok()
        # (ii) text re-joined from lines() with a constant separator
        joins = [bd for bd in group for _bb, t in bd.calls() if re.search(r"(slice|\[T\]|str)::.*join$|::join$", short(callee(t))) and "path" not in short(callee(t)).lower()]
        if joins and p.endswith("whipe_comments") or (joins and any("collect" in short(callee(t)) for bd in group for _bb, t in bd.calls()) and _feeds_parser(F, b)):
            res.bad("M-LINES:text-rejoined-from-lines", b.where(), "%s rebuilds the text from str::lines() joined with a constant separator; offsets into it do not match the original text" % p)
        else:
            res.ok()
    # (iii) locations are byte offsets: the offset-preserving pre-pass (whipe_comments) and the line table must not count
    # characters (a multi-byte character would shift every later location)
    byte_domain = [b_ for nm in ("build::whipe_comments", "source_display::line_locations") for b_ in F.find(nm)]
    if len(byte_domain) < 2:
        raise AnchorError("whipe_comments / line_locations not found")
    for b_ in byte_domain:
        for bd in [b_] + F.closures_of(b_):
            hits = [bb for bb, t in bd.calls() if re.search(r"str::(chars|char_indices)$", short(callee(t)))]
            if hits:
                res.bad("M-LINES:characters-counted-in-byte-offset-domain", bd.where(hits[0]),
                        "%s iterates over characters; locations are byte offsets and a multi-byte character shifts every later one" % bd.path)
            else:
                res.ok()
    res.counts["bodies_using_lines"] = n
    res.sample({"bodies_using_str_lines": n, "byte_offset_domain": [b_.path for b_ in byte_domain]})
    return res


def _feeds_parser(F, b):
    for p, bd in F.bodies.items():
        for _bb, t in bd.calls():
            if short(callee(t)) == short(b.path):
                if any("ModuleParser" in short(callee(t2)) for _b2, t2 in bd.calls()):
                    return True
    return False


LOCS_AUDITED = {
    # (node kind, insert_* call made for the same node) -> reason
    ("stmt_node", "insert_branch_stmt_node"): "branch statements carry no location; the two readers that unwrap stmt_node_loc take their node from iter_match_stmt_node",
}


def rule_locs(F):
    """M-LOCS: every syntax-node kind whose location the semantic checks unwrap is given a location by every grammar
    action that creates such a node."""
    res = RuleResult("M-LOCS")
    # readers: K_loc(..) whose result reaches Option::unwrap / expect in the same body
    unwrapped = {}
    for p, b in F.bodies.items():
        if "grammar::" in p:
            continue
        srcs = {}
        for bb, t in b.calls():
            m = re.match(r"^eqlog_eqlog::Eqlog::(\w+)_loc$", short(callee(t)))
            if m and not m.group(1).startswith("insert_"):
                srcs[t["dest"][0]] = m.group(1)
        if not srcs:
            continue
        tn = Taint(b, srcs)
        for bb, t in b.calls():
            c = short(callee(t))
            if re.search(r"Option::(unwrap|expect)$", c):
                for lab in tn.read_op(t["args"][0]):
                    unwrapped.setdefault(lab, []).append(b.where(bb))
    if len(unwrapped) < 3:
        raise AnchorError("fewer than 3 node kinds with unwrapped locations found (%s)" % sorted(unwrapped))
    acts = [p for p in F.bodies if re.search(r"grammar::.*__action\d+", p)]
    if len(acts) < 100:
        raise AnchorError("grammar actions not found in the MIR facts (%d)" % len(acts))
    created = {}
    for p in sorted(acts):
        b = F.bodies[p]
        news, ins, others = {}, {}, []
        for bb, t in b.calls():
            c = short(callee(t))
            m = re.match(r"^eqlog_eqlog::Eqlog::new_(\w+)$", c)
            if m:
                news[m.group(1)] = news.get(m.group(1), 0) + 1
            m = re.match(r"^eqlog_eqlog::Eqlog::insert_(\w+)_loc$", c)
            if m:
                ins[m.group(1)] = ins.get(m.group(1), 0) + 1
            elif re.match(r"^eqlog_eqlog::Eqlog::insert_(\w+)$", c):
                others.append(c.rsplit("::", 1)[-1])
        for k, n in news.items():
            if k not in unwrapped:
                continue
            created[k] = created.get(k, 0) + n
            if ins.get(k, 0) >= n:
                res.ok(n)
            elif any((k, o) in LOCS_AUDITED for o in others):
                res.ok(n)
                res.count("audited_exceptions")
            else:
                res.bad("M-LOCS:%s:created-without-location" % k, b.where(), "grammar action %s creates a %s without inserting its location; %d sites unwrap %s_loc (e.g. %s)"
                        % (p.rsplit("::", 1)[-1], k, len(unwrapped[k]), k, unwrapped[k][0]))
    for k in unwrapped:
        if created.get(k, 0) == 0:
            res.notes.append("no grammar action creates %s" % k)
    res.sample({"kinds_with_unwrapped_location": {k: len(v) for k, v in unwrapped.items()}, "created_by_grammar_actions": created})
    return res


def rule_funcdom(F):
    """M-FUNCDOM: element-allocating conclusions arise only from non-surjective then-statements."""
    res = RuleResult("M-FUNCDOM")
    makers = []
    for p, b in F.bodies.items():
        for bl in b.blocks:
            for s in bl["s"]:
                rv = s.get("rv")
                if rv and rv.get("k") == "agg" and rv["ak"].endswith("FlatOutRel:FuncDomain"):
                    makers.append(short(p))
    if not makers:
        raise AnchorError("FlatOutRel::FuncDomain is never constructed")
    for mk in makers:
        if mk.split("::{closure#")[0] == "flatten::flatten_non_surj_then":
            res.ok()
        else:
            res.bad("M-FUNCDOM:constructed-elsewhere:%s" % mk, mk, "FlatOutRel::FuncDomain is constructed in %s" % mk)
    callers = []
    for p, b in F.bodies.items():
        for bb, t in b.calls():
            if short(callee(t)) == "flatten::flatten_non_surj_then":
                callers.append((b, bb))
    if not callers:
        raise AnchorError("flatten_non_surj_then is never called")
    for b, bb in callers:
        if short(b.path) != "flatten::flatten_rule":
            res.bad("M-FUNCDOM:called-elsewhere", b.where(bb), "flatten_non_surj_then is called from %s" % b.path)
            continue
        guards = [x for x, t in b.calls() if short(callee(t)).endswith("::non_surj_then_morphism") and b.dominates(x, bb)]
        if guards:
            # and the call is on the true side only: the false successor of the switch on the guard's result must not reach the call
            g = guards[-1]
            sw = None
            gdest = b.term(g)["dest"][0]
            tg = Taint(b, {gdest: "G"})
            for x in sorted(b.reach_after(g) | {g}):
                tt = b.blocks[x]["t"]
                if tt["k"] == "switch" and b.dominates(g, x) and b.dominates(x, bb) and "G" in tg.read_op(tt["d"]):
                    sw = x
                    break
            if sw is not None and sum(1 for s in b.succ(sw) if bb in b.reach([s], avoid={g})) == 1:
                res.ok()
            else:
                res.bad("M-FUNCDOM:not-guarded", b.where(bb), "the call of flatten_non_surj_then is not on one side of the non_surj_then_morphism test")
        else:
            res.bad("M-FUNCDOM:not-guarded", b.where(bb), "the call of flatten_non_surj_then is not dominated by non_surj_then_morphism(morphism)")
    res.sample({"constructed_in": makers, "callers": [short(b.path) for b, _ in callers]})
    return res


# ---------------------------------------------------------------------------
NONDET_CALLS = [
    (r"(HashMap|HashSet)::(iter|iter_mut|keys|values|values_mut|drain|into_iter|retain|into_keys|into_values|extract_if)$", "hash-iteration"),
    (r"hash::(map|set)::\w+::(next|fold|for_each)$", "hash-iteration"),
    (r"hash_(map|set)::\w+::(next|fold|for_each)$", "hash-iteration"),
    (r"RandomState::new$", "random-state"),
    (r"time::(SystemTime|Instant)::now$", "clock"),
    (r"thread::current$", "thread-id"),
    (r"std::env::(vars|vars_os|args|args_os|current_dir|temp_dir)$", "environment"),
    (r"std::env::(var|var_os)$", "environment-var"),
    (r"std::fs::read_dir$", "directory-order"),
    (r"process::id$", "pid"),
    (r"thread::spawn$", "threads"),
    (r"rand::", "random"),
]

NONDET_AUDITED = {
    # (class, function) -> reason
    ("directory-order", "build::find_files_by_extension"): "order in which theory files are processed; every file's output is a function of that file alone",
    ("directory-order", "build::remove_stale_component_files"): "order in which stale files are removed; the set removed does not depend on it",
    ("directory-order", "build::print_cargo_link_directives"): "order of cargo link directives printed to stdout, not content of any generated file",
    ("directory-order", "build::find_eqlog_runtime_rlib_path"): "searching the deps directory for the runtime rlib; result is a path passed to rustc, not generated text",
    ("environment-var", "build::Config::from_cargo_env"): "configuration (OUT_DIR, RUSTC, DEBUG, OPT_LEVEL), not content",
    ("environment-var", "build::find_eqlog_runtime_rlib_path"): "configuration (OUT_DIR, PROFILE, runtime tag)",
    ("environment-var", "build::process_root"): "OUT_DIR for the cargo directive",
    ("environment", "build::Config::from_cargo_env"): "configuration",
    ("hash-iteration", "error::transitive_closure"): "iterates a HashSet to compute a transitive closure which is a set, used only through contains()",
}


def rule_det(F, rule_id="M-DET", expect_positive=None):
    """Inventory of nondeterminism sources over every body of the crate (not only the reachable ones)."""
    res = RuleResult(rule_id)
    n = 0
    hits = {}
    for p in sorted(F.bodies):
        b = F.bodies[p]
        sp = short(p).split("::{closure#")[0]
        for bb, t in b.calls():
            c = short(callee(t))
            raw = short(t.get("raw") or "")
            n += 1
            for pat, cls in NONDET_CALLS:
                if re.search(pat, c) or re.search(pat, raw):
                    hits[(cls, sp)] = hits.get((cls, sp), 0) + 1
                    if (cls, sp) in NONDET_AUDITED:
                        res.ok()
                    else:
                        res.bad("%s:%s:%s" % (rule_id, cls, sp), b.where(bb), "%s calls %s (%s), which is not in the audited table" % (p, c, cls))
                    break
            if "fmt::Pointer" in callee(t) or "fmt::Pointer" in (t.get("raw") or ""):
                res.bad("%s:pointer-formatted:%s" % (rule_id, sp), b.where(bb), "%s formats a pointer" % p)
        for bl in b.blocks:
            for s in bl["s"]:
                rv = s.get("rv")
                if rv and rv.get("k") == "cast" and "PointerExposeProvenance" in rv["ck"] and not s.get("exp"):
                    res.bad("%s:pointer-exposed:%s" % (rule_id, sp), b.where(), "%s turns a pointer into an integer" % p)
    if expect_positive and expect_positive not in hits:
        raise AnchorError("%s: the audited positive example %s was not matched: the detector is blind" % (rule_id, expect_positive))
    res.ok()
    res.counts["bodies"] = len(F.bodies)
    res.counts["calls_scanned"] = n
    res.sample({"bodies": len(F.bodies), "calls_scanned": n, "audited_hits": sorted("%s in %s" % k for k in hits)})
    return res


def rule_compall(F):
    """M-COMPALL: every rule group the component-mode module imports gets its component library.

    display_ram_module emits an import and a call for every element of the list of rule groups, and
    remove_stale_component_files keeps the files of every element; so the closure that process_file runs over that list must
    reach compile_component_rlib on every path that ends in Ok (a skipped element links against nothing, or against a stale
    library of an earlier version)."""
    res = RuleResult("M-COMPALL")
    b = F.one("build::process_file")
    cls = [cl for cl in F.closures_of(b) if _reaches(F, cl, "build::compile_component_rlib")]
    if len(cls) != 1:
        raise AnchorError("expected one closure of process_file reaching compile_component_rlib, found %d" % len(cls))
    cl = cls[0]
    calls = [bb for bb, t in cl.calls() if short(callee(t)) == "build::compile_component_rlib"]
    oks = _ok_exits(cl)
    if not calls or not oks:
        raise AnchorError("closure of process_file: %d calls of compile_component_rlib, %d Ok exits" % (len(calls), len(oks)))
    for o in oks:
        if any(cl.dominates(c, o) for c in calls):
            res.ok()
        else:
            res.bad("M-COMPALL:process_file:ok-without-component", cl.where(o),
                    "the per-rule-group closure of process_file can return Ok without having called compile_component_rlib: the module still imports that group's symbol")
    # the list the closure runs over is the list the component-mode module is rendered from and the stale-file scan keeps
    res.sample({"closure": cl.path, "calls": len(calls), "ok_exits": len(oks)})
    return res


def rule_par(F):
    """M-PAR: the closure run in parallel shares only immutable, cell-free data and is the only parallel section."""
    res = RuleResult("M-PAR")
    b = F.one("build::process_file")
    par_sites = []
    for p, bd in F.bodies.items():
        for bb, t in bd.calls():
            c = short(t.get("raw") or callee(t))
            if "rayon::" in c and re.search(r"(par_bridge|par_iter|into_par_iter|par_iter_mut|spawn|join|scope)$", c):
                par_sites.append((bd, bb, c))
    if not par_sites:
        res.notes.append("no parallel section in the compiler crate")
        res.ok()
        return res
    for bd, bb, c in par_sites:
        if short(bd.path) != "build::process_file":
            res.bad("M-PAR:parallel-section-elsewhere", bd.where(bb), "%s starts a parallel section (%s)" % (bd.path, c))
        else:
            res.ok()
    # the closure passed to try_for_each
    cls = [cl for cl in F.closures_of(b) if _reaches(F, cl, "build::compile_component_rlib")]
    if len(cls) != 1:
        raise AnchorError("expected one closure of process_file reaching compile_component_rlib, found %d" % len(cls))
    cl = cls[0]
    for u in cl.d.get("upvars", []):
        if u.startswith("&'{erased} mut") or u.startswith("&mut") or re.search(r"^&'?\S* ?mut ", u):
            res.bad("M-PAR:closure:mutable-capture", cl.where(), "the parallel closure captures %s" % u)
        elif not u.startswith("&"):
            res.bad("M-PAR:closure:by-value-capture", cl.where(), "the parallel closure captures %s by value" % u)
        elif re.search(r"(Cell|RefCell|Mutex|RwLock|Atomic|OnceCell|OnceLock|LazyCell|LazyLock|UnsafeCell)", u):
            res.bad("M-PAR:closure:interior-mutability", cl.where(), "the parallel closure shares %s" % u)
        else:
            res.ok()
    # paths written inside are derived from the closure's own item
    c = F.one("build::compile_component_rlib")
    # caller side: the first argument (component source path) derives from the item (closure parameter _2)
    t = Taint(cl, {2: "ITEM"})
    for bb, tm in cl.calls():
        if short(callee(tm)) == "build::compile_component_rlib":
            at = t.arg_taints(tm)
            if "ITEM" in at[0]:
                res.ok()
            else:
                res.bad("M-PAR:closure:path-not-item-derived", cl.where(bb), "the component path passed to compile_component_rlib does not derive from the closure's own rule module")
    # callee side: every path written derives from that argument
    tc = Taint(c, {1: "SRC"})
    for bb, tm in c.calls():
        cs = short(callee(tm))
        if cs in FS_MUTATORS:
            if "SRC" in tc.read_op(tm["args"][0]):
                res.ok()
            else:
                res.bad("M-PAR:compile_component_rlib:path-not-component-derived", c.where(bb), "%s writes a path that does not derive from the component's own source path" % cs)
    # statics with interior mutability reachable from the closure
    res.sample({"closure": cl.path, "upvars": cl.d.get("upvars", [])})
    return res


def rule_dirtaint(F):
    """M-DIRTAINT: directory layout and environment do not reach the emitters or the digest."""
    res = RuleResult("M-DIRTAINT")
    b = F.one("build::process_file")
    by_type = lambda frag: [i for i in range(1, b.nargs + 1) if frag in b.local_ty(i)]
    cfg = (by_type("build::Config") or [b.param_local("config")])[0]
    if cfg is None:
        raise AnchorError("process_file has no parameter of type Config")
    # Config { in_dir (.0), out_dir (.1), component_build (.2) } by declaration order; component_out_dir etc. inside .2
    srcs = {}
    # the theory's file *name* is an input of compilation, the directory it lies in (relative to the source root) is not:
    # `in_file` carries RELPATH, and only Path::file_stem strips it
    inf = (by_type("path::Path") or [b.param_local("in_file")])[0]
    if inf is None:
        raise AnchorError("process_file has no parameter of type Path")
    t = Taint(b, {inf: "RELPATH"}, summaries=_dir_summaries)
    t.write([cfg, [".0"]], {"DIR"})
    t.write([cfg, [".1"]], {"DIR"})
    t.write([cfg, [".2"]], {"DIR"})
    t.run()
    sinks = ("rust_gen::display_module", "rust_gen::rule::display_ram_module", "build::digest_source")
    n = 0
    for bb, tm in b.calls():
        cs = short(callee(tm))
        if cs in sinks:
            n += 1
            bad = [i for i, a in enumerate(t.arg_taints(tm)) if "DIR" in a]
            if bad:
                res.bad("M-DIRTAINT:process_file:%s:DIR" % cs.rsplit("::", 1)[-1], b.where(bb),
                        "argument(s) %s of %s derive from the configured in/out/component directories" % (bad, cs))
            else:
                res.ok()
    # The symbol prefix names the exported functions and the component libraries of a theory: it must identify the theory.
    # It is `eql_<length>_<name>`: (a) length and name must be taken from the same string (else two theories can line up),
    # (STEM = Path::file_stem; RELPATH = anything else derived from the path of the theory file).
    fmts = [(bb, tm) for bb, tm in b.calls() if short(callee(tm)) == "std::fmt::format"]
    prefix_fmt = []
    for bb, tm in fmts:
        probe = Taint(b, {tm["dest"][0]: "PFX"}, summaries=_dir_summaries)
        probe.run()
        if any("PFX" in a for bb2, tm2 in b.calls() if short(callee(tm2)) == "rust_gen::display_module" for a in probe.arg_taints(tm2)):
            prefix_fmt.append(bb)
    if len(prefix_fmt) != 1:
        raise AnchorError("expected one format!() whose result reaches display_module (the symbol prefix), found %d" % len(prefix_fmt))
    fields = []
    bb = prefix_fmt[0] - 1
    while bb >= 0 and b.term(bb)["k"] == "call" and ("fmt::rt::Argument" in callee(b.term(bb)) or "fmt::Arguments" in callee(b.term(bb))):
        tm = b.term(bb)
        if "fmt::rt::Argument" in callee(tm):
            op = tm["args"][0]
            pl = op_place(op)
            ty = b.local_ty(pl[0]) if pl else ""
            fields.append((ty, {l for l in t.read_op(op) if l in ("STEM", "RELPATH")}))
        bb -= 1
    nums = [labs for ty, labs in fields if "usize" in ty]
    strs = [labs for ty, labs in fields if "usize" not in ty]
    where = b.where(prefix_fmt[0])
    if len(nums) != 1 or len(strs) != 1:
        raise AnchorError("symbol prefix format: expected one length and one name field, found %s" % [ty for ty, _ in fields])
    if nums[0] == strs[0]:
        res.ok()
    else:
        res.bad("M-DIRTAINT:process_file:symbol-prefix:length-and-name-differ", where,
                "the symbol prefix takes its length field from %s and its name field from %s: prefixes of different theories can coincide" % (sorted(nums[0]), sorted(strs[0])))
    if "RELPATH" not in strs[0]:
        # not a finding of a listed property: two theories of the same stem in one crate clash *loudly* in both build modes
        # (rustc: symbol already defined / duplicate link directive); see DESIGN.md section 0, observation O1
        res.notes.append("the symbol prefix derives from the file stem only (theories of the same name in different directories of one crate clash at build time)")
    # the parallel closure: its captures must be clean except the component config / out dir, and display_ram_module's args clean
    for cl in F.closures_of(b):
        calls = [(bb, tm) for bb, tm in cl.calls() if short(callee(tm)) in sinks]
        if not calls:
            continue
        srcs = {}
        for bl in b.blocks:
            for s in bl["s"]:
                rv = s.get("rv")
                if rv and rv.get("k") == "agg" and rv["ak"] == "closure:" + cl.path:
                    for i, o in enumerate(rv["ops"]):
                        srcs[i] = t.read_op(o)
        tc = Taint(cl, {}, summaries=_dir_summaries)
        for i, labs in srcs.items():
            if labs:
                tc.write([1, [".%d" % i]], set(labs))
        tc.run()
        for bb, tm in calls:
            n += 1
            bad = [i for i, a in enumerate(tc.arg_taints(tm)) if "DIR" in a]
            if bad:
                res.bad("M-DIRTAINT:closure:%s" % short(callee(tm)).rsplit("::", 1)[-1], cl.where(bb), "argument(s) %s of %s derive from the directory configuration" % (bad, short(callee(tm))))
            else:
                res.ok()
    if n < 3:
        raise AnchorError("fewer than 3 emitter/digest call sites found in process_file (%d)" % n)
    # env:: reads anywhere in the emitters
    res.sample({"sinks_checked": n})
    return res


def _dir_summaries(c, arg_taints, t):
    cs = short(c)
    if cs in ("build::Config::build_type",):
        return set()          # only distinguishes Some/None of component_build
    raw = short(t.get("raw") or "")
    if any(x.endswith(sfx) for x in (cs, raw) for sfx in ("::with_context", "::context", "::map_err", "::ok_or_else", "::expect", "::unwrap_or_else")):
        return set(arg_taints[0]) if arg_taints else set()   # the closure / message only shapes the error value
    if cs in ("std::path::Path::file_stem", "std::path::Path::file_name"):
        return {"STEM"}       # the name of the theory file, without its directory
    if cs in ("std::fs::read_to_string", "std::fs::read"):
        return set()          # content of the file, not its location
    if cs in ("build::read_digest", "build::remove_digest", "build::write_digest", "std::fs::create_dir_all", "std::fs::write"):
        return set()          # Result<..> of an I/O action
    if cs.endswith("Option::as_ref") or cs.endswith("Option::is_some") or cs.endswith("Option::is_none"):
        return None
    return None


def rule_emit(F):
    """M-EMIT (C19): the env struct, the exported function and its declaration each have one emitter, reached by both the
    module emitter and the component emitter."""
    res = RuleResult("M-EMIT")
    single = ("rust_gen::rule::display_module_env_struct", "rust_gen::rule::display_module_main_fn_decl", "rust_gen::rule::display_module_main_fn",
              "rust_gen::rule::display_routine", "rust_gen::rule::display_module_env_struct_name", "rust_gen::rule::display_module_main_fn_name",
              "rust_gen::display_index_field_name", "rust_gen::display_out_set_field_name")
    for s in single:
        bs = [b for b in F.find(s) if b.d["kind"] != "Closure"]
        if len(bs) == 1:
            res.ok()
        else:
            res.bad("M-EMIT:emitter-count:%s" % s.rsplit("::", 1)[-1], s, "%d definitions of %s" % (len(bs), s))
    dm = F.one("rust_gen::display_module")
    drm = F.one("rust_gen::rule::display_ram_module")
    need = {
        "display_module": (dm, ["rust_gen::rule::display_module_env_struct", "rust_gen::rule::display_module_main_fn_decl", "rust_gen::rule::display_ram_module"]),
        "display_ram_module": (drm, ["rust_gen::rule::display_module_env_struct", "rust_gen::rule::display_module_main_fn", "rust_gen::rule::display_routine"]),
    }
    for name, (b, targets) in need.items():
        for tg in targets:
            if _reaches(F, b, tg):
                res.ok()
            else:
                res.bad("M-EMIT:%s:does-not-reach:%s" % (name, tg.rsplit("::", 1)[-1]), b.where(), "%s does not reach %s" % (name, tg))
    # the link name is built from the same two ingredients on both sides
    decl = F.one("rust_gen::rule::display_module_main_fn_decl")
    main = F.one("rust_gen::rule::display_module_main_fn")
    for b in (decl, main):
        if _reaches(F, b, "rust_gen::rule::display_module_main_fn_name") and _reaches(F, b, "rust_gen::rule::display_module_env_struct_name"):
            res.ok()
        else:
            res.bad("M-EMIT:%s:name-helpers" % short(b.path).rsplit("::", 1)[-1], b.where(), "%s does not build its names from the shared helpers" % b.path)
    # process_file passes one symbol prefix to both emitters
    pf = F.one("build::process_file")
    if _reaches(F, pf, "rust_gen::display_module") and _reaches(F, pf, "rust_gen::rule::display_ram_module"):
        res.ok()
    else:
        res.bad("M-EMIT:process_file:emitters", pf.where(), "process_file does not reach both emitters")
    res.sample({"single_definition": list(single)})
    return res
