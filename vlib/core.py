"""Shared plumbing: paths, subprocesses, tree hash, cache lock, violations, evidence, known findings."""
import fcntl
import hashlib
import json
import os
import subprocess
import sys
import time

VERIF = os.path.dirname(os.path.dirname(os.path.abspath(__file__)))
REPO = os.environ.get("VERIF_REPO", "/repo")
CACHE = os.path.join(VERIF, ".cache")
# target directories are per repository path: cargo fingerprints contain absolute source paths
REPO_TAG = "" if REPO == "/repo" else "-" + hashlib.sha256(REPO.encode()).hexdigest()[:8]
CLI_TARGET = os.path.join(CACHE, "cli-target" + REPO_TAG)
ANALYZER_TARGET = os.path.join(CACHE, "analyzer-target")
DRIVER_TARGET = os.path.join(CACHE, "driver-target")
ANALYZER_BIN = os.path.join(ANALYZER_TARGET, "release", "verif-analyzer")
DRIVER_BIN = os.path.join(DRIVER_TARGET, "release", "verif-driver")
# evidence under /verif/evidence describes /repo only; runs against a scratch copy (VERIF_REPO) write theirs into the cache
EVIDENCE_DIR = os.path.join(VERIF, "evidence") if REPO == "/repo" else os.path.join(CACHE, "evidence" + REPO_TAG)
REPLAY_DIR = os.path.join(VERIF, ".cache", "replay")
NCPU = os.cpu_count() or 4

OFFLINE_ENV = {"CARGO_NET_OFFLINE": "true"}


class BuildFailed(Exception):
    """The working tree (or the framework) does not build: nothing can be decided (exit 2)."""


def log(*a):
    print(*a, file=sys.stderr, flush=True)


def run(cmd, cwd=None, env=None, timeout=None, check=False, stdin=None):
    e = dict(os.environ)
    e.update(OFFLINE_ENV)
    if env:
        e.update(env)
    p = subprocess.run(cmd, cwd=cwd, env=e, stdout=subprocess.PIPE, stderr=subprocess.PIPE,
                       timeout=timeout, input=stdin, text=True, errors="replace")
    if check and p.returncode != 0:
        raise BuildFailed("command failed (%d): %s\n%s\n%s" % (p.returncode, " ".join(cmd), p.stdout[-4000:], p.stderr[-8000:]))
    return p


class Lock:
    def __init__(self, name="lock"):
        os.makedirs(CACHE, exist_ok=True)
        self.path = os.path.join(CACHE, name)

    def __enter__(self):
        self.f = open(self.path, "w")
        fcntl.flock(self.f, fcntl.LOCK_EX)
        return self

    def __exit__(self, *a):
        fcntl.flock(self.f, fcntl.LOCK_UN)
        self.f.close()


def repo_files():
    """Tracked + untracked-not-ignored files of the working tree, as the build would see them."""
    p = run(["git", "-C", REPO, "ls-files", "-co", "--exclude-standard", "-z"], check=True)
    out = []
    for f in p.stdout.split("\0"):
        if not f:
            continue
        if f.startswith("target/") or "/target/" in f:
            continue
        # rewritten by the `rebuild` feature as a side effect of building; derived from eqlog.eql
        if f.startswith("eqlog-eqlog/prebuilt/"):
            continue
        out.append(f)
    out.sort()
    return out


def tree_hash():
    h = hashlib.sha256()
    for f in repo_files():
        p = os.path.join(REPO, f)
        try:
            with open(p, "rb") as fh:
                data = fh.read()
        except (FileNotFoundError, IsADirectoryError):
            continue
        h.update(f.encode())
        h.update(b"\0")
        h.update(hashlib.sha256(data).digest())
    # the framework's own inputs that shape cached artefacts
    for root in ("corpus", "corpus_tc"):
        d = os.path.join(VERIF, root)
        for name in sorted(os.listdir(d)) if os.path.isdir(d) else []:
            with open(os.path.join(d, name), "rb") as fh:
                h.update(name.encode() + b"\0" + hashlib.sha256(fh.read()).digest())
    for src in ("driver/src/main.rs", "analyzer/src/main.rs", "vlib/artifacts.py", "vlib/enumerator.py"):
        p = os.path.join(VERIF, src)
        if os.path.exists(p):
            with open(p, "rb") as fh:
                h.update(src.encode() + b"\0" + hashlib.sha256(fh.read()).digest())
    return h.hexdigest()[:20]


class Violation:
    """One rule instance that does not hold.

    key: stable identification without line numbers or theory names (used for known findings)
    where: human-readable site (file:line function), for the report only
    """

    def __init__(self, rule, key, where, msg, detail=None):
        self.rule = rule
        self.key = key
        self.where = where
        self.msg = msg
        self.detail = detail or {}

    def to_json(self):
        return {"rule": self.rule, "key": self.key, "where": self.where, "msg": self.msg, "detail": self.detail}


class RuleResult:
    """Outcome of one rule over one scope."""

    def __init__(self, rule):
        self.rule = rule
        self.instances = 0          # obligations evaluated
        self.violations = []
        self.samples = []
        self.notes = []
        self.counts = {}            # extra measured counters

    def ok(self, n=1):
        self.instances += n

    def sample(self, s):
        if len(self.samples) < 4:
            self.samples.append(s)

    def bad(self, key, where, msg, detail=None):
        self.instances += 1
        self.violations.append(Violation(self.rule, key, where, msg, detail))

    def count(self, name, n=1):
        self.counts[name] = self.counts.get(name, 0) + n

    def merge(self, other):
        assert other.rule == self.rule
        self.instances += other.instances
        self.violations += other.violations
        for s in other.samples:
            self.sample(s)
        self.notes += other.notes
        for k, v in other.counts.items():
            self.count(k, v)


def load_known_findings():
    path = os.path.join(VERIF, "known_findings.jsonl")
    known, fixed = {}, {}
    if os.path.exists(path):
        for line in open(path):
            line = line.strip()
            if not line or line.startswith("#"):
                continue
            rec = json.loads(line)
            if rec.get("status") == "known":
                known.setdefault(rec["property"], {})[rec["key"]] = rec
            else:
                fixed.setdefault(rec["property"], {})[rec["key"]] = rec
    return known, fixed


def write_json(path, obj):
    os.makedirs(os.path.dirname(path), exist_ok=True)
    tmp = path + ".tmp%d" % os.getpid()
    with open(tmp, "w") as f:
        json.dump(obj, f, indent=1, sort_keys=True)
        f.write("\n")
    os.replace(tmp, path)


class Timer:
    def __init__(self):
        self.t0 = time.time()

    def s(self):
        return round(time.time() - self.t0, 2)
