"""(B) Template-level decision of T-LOOP / T-PENDING: the `close_until` template inside the generator
(`display_close_until_fn` in eqlog/src/rust_gen/mod.rs) does not depend on the program beyond the list of module calls,
so analysing the template itself decides the rules for every program.

The string literal of the `writedoc!` is taken from the generator's syntax tree, `{{`/`}}` are unescaped, every
`{placeholder}` becomes a marker (a macro call `PH_x!();` when it stands alone on a line, an identifier otherwise),
the result is parsed as Rust by the syn front end and handed to the same typestate analysis as emitted code.
"""
import os
import re
import tempfile

from .core import ANALYZER_BIN, REPO, RuleResult, run
from .emodel import AnchorError
from .rules_loop import LoopAnalysis
from .tree import find_fns, kind, walk
import json

GEN = "eqlog/src/rust_gen/mod.rs"


def rust_string_literal(tok):
    """Value of a Rust string literal token (normal or raw)."""
    tok = tok.strip()
    m = re.match(r'^r(#*)"(.*)"\1$', tok, re.S)
    if m:
        return m.group(2)
    if not (tok.startswith('"') and tok.endswith('"')):
        raise AnchorError("not a string literal")
    body = tok[1:-1]
    out = []
    i = 0
    while i < len(body):
        c = body[i]
        if c == "\\":
            n = body[i + 1]
            if n == "n":
                out.append("\n")
            elif n == "t":
                out.append("\t")
            elif n == "r":
                out.append("\r")
            elif n == "\\":
                out.append("\\")
            elif n == '"':
                out.append('"')
            elif n == "'":
                out.append("'")
            elif n == "0":
                out.append("\0")
            elif n == "\n":
                # line continuation: skip following whitespace
                i += 2
                while i < len(body) and body[i] in " \t\n\r":
                    i += 1
                continue
            elif n == "u":
                j = body.index("}", i)
                out.append(chr(int(body[i + 3:j], 16)))
                i = j + 1
                continue
            else:
                out.append(n)
            i += 2
        else:
            out.append(c)
            i += 1
    return "".join(out)


def template_of(tree, fn_name, must_contain):
    """The string literal of the writedoc!/write!/formatdoc! macro in generator function `fn_name` that contains `must_contain`."""
    fns = {n: f for n, f, _ in find_fns(tree["items"])}
    fn = fns.get(fn_name)
    if fn is None:
        raise AnchorError("generator function %s not found" % fn_name)
    for x in walk(fn["b"]):
        if kind(x) == "macro" and x["p"] in ("writedoc", "write", "writeln", "formatdoc", "format"):
            toks = x["t"]
            for m in re.finditer(r'r(#*)"(?:.|\n)*?"\1|"(?:[^"\\]|\\.|\\\n)*"', toks):
                try:
                    val = rust_string_literal(m.group(0))
                except (AnchorError, ValueError, IndexError):
                    continue
                if must_contain in val:
                    return val, fn
    raise AnchorError("template containing %r not found in %s" % (must_contain, fn_name))


def instantiate(template):
    """Format-string -> Rust text with placeholder markers."""
    out_lines = []
    for line in template.split("\n"):
        stripped = line.strip()
        m = re.match(r"^\{(\w+)\}$", stripped)
        if m:
            out_lines.append("PH_%s!();" % m.group(1))
            continue
        # escape-aware replacement
        res = []
        i = 0
        while i < len(line):
            if line.startswith("{{", i):
                res.append("{")
                i += 2
            elif line.startswith("}}", i):
                res.append("}")
                i += 2
            elif line[i] == "{":
                j = line.index("}", i)
                res.append("PH_" + re.sub(r"\W", "_", line[i + 1:j]))
                i = j + 1
            else:
                res.append(line[i])
                i += 1
        out_lines.append("".join(res))
    return "\n".join(out_lines)


class _StubModel:
    """Just enough of emodel.Model for the typestate analysis: a theory with model relations and definable functions,
    so that every flag of the analysis matters."""

    def __init__(self, fn, path):
        self.path = path
        self.fns = {"close_until": fn, "recompute_model_indices": {"b": {"s": [{"k": "expr"}]}, "ln": 0}}
        self.extern_fns = {"PH_module_calls": {"env": "PHEnv", "link": "x", "name": "PH_module_calls"}}
        self.delta = {"new_r": 1, "new_t_equalities": 2, "new_f_def": 1}
        self.env_structs = {}
        self.model_rels = ["r"]
        self.by_name = {}

    def where(self, node, fn=None):
        return "%s template of close_until, template line %s" % (self.path, node.get("ln", "?"))


class TemplateLoopAnalysis(LoopAnalysis):
    def expr(self, e, states, node):
        if kind(e) == "macro" and e["p"] == "PH_module_calls":
            out = []
            for st in states:
                st = st.copy()
                self.ev_module(st, "PH_module_calls", e)
                out.append(st)
            return out
        return LoopAnalysis.expr(self, e, states, node)


def rule_template_loop(art):
    res = RuleResult("T-LOOP")
    pres = RuleResult("T-PENDING")
    trees = art.source_trees([GEN])
    tree = trees[GEN]
    if "error" in tree:
        raise AnchorError("generator source does not parse: %s" % tree["error"])
    template, gen_fn = template_of(tree, "display_close_until_fn", "fn close_until")
    text = "impl Model {\n" + instantiate(template) + "\n}\n"
    d = tempfile.mkdtemp(prefix="verif-tpl-")
    try:
        src = os.path.join(d, "close_until_template.rs")
        with open(src, "w") as f:
            f.write(text)
        out = os.path.join(d, "t.json")
        run([ANALYZER_BIN, out, src], check=True)
        t = json.load(open(out))[src]
    finally:
        import shutil
        keep = text
        shutil.rmtree(d, ignore_errors=True)
    if "error" in t:
        raise AnchorError("close_until template does not parse after placeholder substitution: %s" % t["error"])
    fns = [f for n, f, _ in find_fns(t["items"]) if f["n"] == "close_until"]
    if len(fns) != 1:
        raise AnchorError("template does not define close_until")
    m = _StubModel(fns[0], GEN)
    la = TemplateLoopAnalysis(m, res, pres)
    la.site = "close_until (template)"
    la.run()
    res.count("template_lines", len(text.split("\n")))
    res.sample({"template_of": "display_close_until_fn", "generator_line": gen_fn["ln"], "returns_seen": la.returns, "placeholders": sorted(set(re.findall(r"PH_\w+", text)))})
    pres.sample({"template_of": "display_close_until_fn", "delta_var": la.delta_var, "persist_field": la.persist_field})
    return [res, pres]
