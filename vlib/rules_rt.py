"""Rules over the hand-written runtime crate (eqlog-runtime):
MIR rules M-MAPFREE, M-FREEZE, M-UNSAFE, M-CBORDER, M-LEN, M-SIZE, M-BAL, M-SYM, M-UF and the
syntax rules S-SIB, S-PRUNE over prefix_tree.rs."""
import json
import re

from .core import RuleResult
from .emodel import AnchorError
from .mir import Facts, Taint, callee, op_place, strip_generics
from .tree import expr_str, find_fns, kind, is_path, mcall, stmt_expr, strip_ln, walk, nospace


def short(c):
    return strip_generics(c)


# ---------------------------------------------------------------------------

def rule_mapfree(F):
    """M-MAPFREE: the lazy key-mapping node kind is never created outside WBTreeMap::mapped /
    Node::wrapped_in_mappings, and nothing calls those two (split/join/union/difference drop mapping nodes
    and `len` is inexact under them, so every other rule assumes data nodes only)."""
    res = RuleResult("M-MAPFREE")
    creators = ("wbtree::map::WBTreeMap::mapped", "wbtree::map::Node::wrapped_in_mappings")
    for p, b in F.bodies.items():
        sp = short(p)
        for bb, t in b.calls():
            c = short(callee(t))
            if c in creators:
                res.bad("M-MAPFREE:call:%s" % c.rsplit("::", 1)[-1], b.where(bb), "%s calls %s: mapping nodes enter live trees" % (p, c))
            else:
                res.ok()
        for bl in b.blocks:
            for s in bl["s"]:
                rv = s.get("rv")
                if rv and rv.get("k") == "agg" and rv["ak"].endswith("Node:Mapping") and "wbtree::map" in rv["ak"]:
                    if sp in creators or any(sp.startswith(c + "::") for c in creators) or sp == "wbtree::map::Node::clone":
                        res.ok()
                    else:
                        res.bad("M-MAPFREE:construct", b.where(), "%s constructs Node::Mapping" % p)
    if not F.find("wbtree::map::WBTreeMap::mapped"):
        res.notes.append("WBTreeMap::mapped no longer exists")
    res.sample({"bodies_scanned": len(F.bodies), "creators": list(creators)})
    return res


SHARE_OBSERVERS = [
    (r"(rc::Rc|sync::Arc)::<[^>]*>::(ptr_eq|strong_count|weak_count|get_mut|try_unwrap|into_inner|is_unique|as_ptr|downgrade|into_raw)$", "rc-identity"),
    (r"(^|::)ptr::(eq|addr_eq|fn_addr_eq)$", "pointer-identity"),
    (r"(rc|sync)::Weak::<[^>]*>::(upgrade|ptr_eq|strong_count)$", "rc-identity"),
]
SHARE_TRANSPARENT = r"rc::Rc::<[^>]*>::(make_mut|unwrap_or_clone)$"
SHARE_EXEMPT_IMPLS = r" as std::cmp::(PartialEq|Eq|PartialOrd|Ord)(<[^>]*>)?>::"


def rule_share(F):
    """M-SHARE: what a container operation does never depends on whether a node is shared with a clone.

    Nodes are reference counted and clones share them; the persistence clause (and the agreement with a reference map for
    *arbitrary* merge/filter callbacks) holds only if sharing is unobservable.  The two operations the code uses,
    Rc::make_mut and Rc::unwrap_or_clone, return the same value whether or not the node is shared.  Every operation whose
    *result* depends on identity or on the reference count (ptr_eq, strong_count, get_mut, try_unwrap, ptr::eq, ...) is
    forbidden in every body of the crate, except inside comparison impls, where identity implies equality."""
    res = RuleResult("M-SHARE")
    transparent = 0
    for p in sorted(F.bodies):
        b = F.bodies[p]
        sp = short(p).split("::{closure#")[0]
        for bb, t in b.calls():
            c = callee(t)
            raw = t.get("raw") or ""
            if re.search(SHARE_TRANSPARENT, c) or re.search(SHARE_TRANSPARENT, raw):
                transparent += 1
                res.ok()
                continue
            for pat, cls in SHARE_OBSERVERS:
                if re.search(pat, c) or re.search(pat, raw):
                    if re.search(SHARE_EXEMPT_IMPLS, p):
                        res.ok()
                        res.notes.append("%s uses %s inside a comparison impl (identity implies equality)" % (p, short(c)))
                    else:
                        op = c.rsplit("::", 1)[-1]
                        res.bad("M-SHARE:%s:%s" % (sp, op), b.where(bb),
                                "%s calls %s: its outcome depends on whether the node is shared with a clone (%s)" % (p, short(c), cls))
                    break
    if transparent == 0:
        raise AnchorError("M-SHARE: no Rc::make_mut / Rc::unwrap_or_clone call seen in the runtime crate: the detector does not see Rc operations")
    res.counts["transparent_rc_operations"] = transparent
    res.sample({"bodies_scanned": len(F.bodies), "transparent_rc_operations": transparent, "observers": [x[0] for x in SHARE_OBSERVERS]})
    return res


def rule_freeze(F):
    """M-FREEZE: no runtime container type has interior mutability."""
    res = RuleResult("M-FREEZE")
    roots = ("WBTreeMap", "WBTreeSet", "PrefixTree", "Unification", "DataNode", "MappingNode", "Node", "MorphismWithSignature")
    n = 0
    for adt in F.d["adts"]:
        n += 1
        name = adt["path"]
        cell_fields = [f for f in adt["fields"] if f["unsafe_cell"]]
        if adt["unsafe_cell"] or cell_fields:
            res.bad("M-FREEZE:adt:%s" % name.rsplit("::", 1)[-1], name, "%s contains interior mutability (%s)" % (name, [f["name"] + ": " + f["ty"] for f in cell_fields]))
        else:
            res.ok()
    have = {a["path"].rsplit("::", 1)[-1] for a in F.d["adts"]}
    for want in ("WBTreeMap", "WBTreeSet", "PrefixTree0", "PrefixTree9", "Unification", "DataNode", "Node"):
        if want not in have:
            raise AnchorError("runtime ADT %s not found in the MIR facts" % want)
    # statics: only the empty-container statics and the build tag
    for st in F.d["statics"]:
        ty = st["ty"]
        if "UnsafeSync" in ty or "PrefixTree0" in ty or ty.startswith("&") and "str" in ty:
            res.ok()
        else:
            res.bad("M-FREEZE:static:%s" % st["path"].rsplit("::", 1)[-1], st["path"], "unexpected static %s: %s" % (st["path"], ty))
    res.sample({"adts": n, "statics": [s["path"] for s in F.d["statics"]][:4]})
    return res


# Operations that expose an address or break the ownership discipline. Observing *identity or sharing* (Rc::ptr_eq, ptr::eq,
# strong_count, ..) is deterministic and memory-safe; it is M-SHARE's subject (C08, C14), not this rule's (which also serves C20).
FORBIDDEN_CALLS = ("Rc::<T>::as_ptr", "Rc::as_ptr", "into_raw", "from_raw", "get_mut_unchecked", "increment_strong_count", "decrement_strong_count",
                   "ptr::read", "ptr::write", "ptr::copy", "mem::transmute", "transmute", "ptr::swap", "ptr::replace", "mem::zeroed", "MaybeUninit",
                   "from_raw_parts", "unreachable_unchecked", "get_unchecked", "unwrap_unchecked", "assume_init")

UNSAFE_BLOCKS_AUDITED = {
    # function (generic-free) -> reason
    "wbtree::map::IterMut::descend_left": "dereferences the raw pointer to the current child slot; the pointer was made from &mut self.root / &mut data_node.left|right of a node that Rc::make_mut has just made unique",
    "wbtree::map::IterMut::next": "dereferences the raw pointer to a data node pushed by descend_left (unique after Rc::make_mut); yields &mut to its value once",
}
RAWPTR_AUDITED = {"wbtree::map::WBTreeMap::iter_mut", "wbtree::map::IterMut::descend_left", "wbtree::map::IterMut::next"}
UNSAFE_IMPLS_AUDITED = {"prefix_tree::UnsafeSync": "only instances are statics holding containers built by const `new()`: no Rc inside"}


def rule_unsafe(F):
    """M-UNSAFE: the unsafe inventory of the runtime is exactly the audited one."""
    res = RuleResult("M-UNSAFE")
    seen_blocks = {}
    for ub in F.d["unsafe_blocks"]:
        f = short(ub["fn"])
        seen_blocks[f] = seen_blocks.get(f, 0) + 1
        if f in UNSAFE_BLOCKS_AUDITED:
            res.ok()
        else:
            res.bad("M-UNSAFE:block:%s" % f, "%s:%s %s" % (ub["file"], ub["line"], ub["fn"]), "unsafe block in %s is not in the audited inventory" % ub["fn"])
    for f in UNSAFE_BLOCKS_AUDITED:
        if seen_blocks.get(f, 0) > 1:
            res.bad("M-UNSAFE:block-count:%s" % f, f, "%d unsafe blocks in %s (audited: 1)" % (seen_blocks[f], f))
    for ui in F.d["unsafe_impls"]:
        st = ui["self_ty"]
        if any(k in st for k in UNSAFE_IMPLS_AUDITED) and "Sync" in ui["trait"]:
            res.ok()
        else:
            res.bad("M-UNSAFE:impl:%s" % st.split("<")[0], "%s:%s" % (ui["file"], ui["line"]), "unsafe impl %s is not in the audited inventory" % ui["impl"])
    # UnsafeSync is only used in statics initialised by const constructors
    for p, b in F.bodies.items():
        for bl in b.blocks:
            for s in bl["s"]:
                rv = s.get("rv")
                if rv and rv.get("k") == "agg" and "UnsafeSync" in rv["ak"]:
                    res.bad("M-UNSAFE:unsafesync-runtime-value", b.where(), "%s builds an UnsafeSync value at run time" % p)
    for st in F.d["statics"]:
        if "UnsafeSync" in st["ty"]:
            res.ok()
    for p, b in F.bodies.items():
        sp = short(p)
        for bb, t in b.calls():
            c = callee(t)
            if t.get("exp") and ("fmt::Arguments" in c or "fmt::rt::" in c):
                continue
            cs = short(c)
            hit = [fc for fc in FORBIDDEN_CALLS if cs.endswith("::" + fc) or cs == fc or ("::" + fc + "::") in cs + "::"]
            if hit:
                res.bad("M-UNSAFE:call:%s" % hit[0], b.where(bb), "%s calls %s" % (p, c))
            else:
                res.ok()
        for bl in b.blocks:
            for s in bl["s"]:
                rv = s.get("rv")
                if not rv:
                    continue
                if rv["k"] == "rawptr":
                    base = sp
                    for cl in ("::{closure#",):
                        if cl in base:
                            base = base.split(cl)[0]
                    if base in RAWPTR_AUDITED and rv["mut"]:
                        res.ok()
                    else:
                        res.bad("M-UNSAFE:rawptr:%s" % base, b.where(), "%s takes a raw %s pointer" % (p, "mut" if rv["mut"] else "const"))
                elif rv["k"] == "cast":
                    ck = rv["ck"]
                    if s.get("exp"):
                        continue
                    if "Transmute" in ck or "PointerExposeProvenance" in ck or "PointerWithExposedProvenance" in ck:
                        res.bad("M-UNSAFE:cast:%s" % ck.split("(")[0], b.where(), "%s: %s cast %s -> %s" % (p, ck, rv["from"], rv["ty"]))
                    elif "PtrToPtr" in ck and rv["from"].startswith("*const") and rv["ty"].startswith("*mut"):
                        res.bad("M-UNSAFE:cast:const-to-mut", b.where(), "%s casts %s to %s" % (p, rv["from"], rv["ty"]))
                    elif "PtrToPtr" in ck or "MutToConstPointer" in ck:
                        if sp.split("::{closure#")[0] in RAWPTR_AUDITED:
                            res.ok()
                        else:
                            res.bad("M-UNSAFE:cast:ptr", b.where(), "%s: pointer cast %s -> %s" % (p, rv["from"], rv["ty"]))
    # every &mut Node originates from Rc::make_mut / unwrap_or_clone / get_mut / a fresh Rc::new: the only other way
    # would be a raw deref, and those are confined to the two audited blocks (checked above)
    res.sample({"unsafe_blocks": seen_blocks, "unsafe_impls": [u["impl"] for u in F.d["unsafe_impls"]]})
    return res


# ---------------------------------------------------------------------------

def _carries_v(body, op):
    pl = op_place(op)
    if pl is None:
        return False
    return "V/#0" in body.local_ty(pl[0])


def _fnmut_calls(b):
    for bb, t in b.calls():
        c = callee(t)
        if c.endswith("FnMut::call_mut") or c.endswith("FnOnce::call_once") or c.endswith("Fn::call"):
            yield bb, t


def rule_cborder(F):
    """M-CBORDER: merge/diff callbacks receive (value of self/left, value of other/right) in that order."""
    res = RuleResult("M-CBORDER")
    for fname in ("wbtree::map::Node::union", "wbtree::map::Node::difference"):
        b = F.one(fname)
        if b.nargs != 3:
            raise AnchorError("%s no longer takes (left, right, callback)" % fname)
        t = Taint(b, {1: "L", 2: "R"}, _carries_v)
        ncb = 0
        for bb, tm in _fnmut_calls(b):
            ncb += 1
            fields = t.tuple_arg_fields(tm["args"][1], 3)
            if fields[1] == {"L"} and fields[2] == {"R"}:
                res.ok()
            else:
                res.bad("M-CBORDER:%s:callback-args" % fname.rsplit("::", 1)[-1], b.where(bb),
                        "%s passes values derived from %s / %s as (left value, right value) to the callback" % (fname, sorted(fields[1]), sorted(fields[2])))
        if ncb == 0:
            raise AnchorError("%s never calls its callback" % fname)
        for bb, tm in b.calls():
            if short(callee(tm)) == fname:
                at = t.arg_taints(tm)
                if at[0] <= {"L"} and at[1] <= {"R"}:
                    res.ok()
                else:
                    res.bad("M-CBORDER:%s:recursion-args" % fname.rsplit("::", 1)[-1], b.where(bb),
                            "%s recurses with (left, right) derived from %s / %s" % (fname, sorted(at[0]), sorted(at[1])))
        # on every path on which both operands are non-empty, the right operand is split at the left root's key (the only
        # way common keys are found and handed to the callback): no shortcut may return a combination of two non-empty trees
        tup = None
        for bl in b.blocks:
            for s_ in bl["s"]:
                rv = s_.get("rv")
                if rv and rv.get("k") == "agg" and rv["ak"] == "tuple" and len(rv["ops"]) == 2:
                    if t.read_op(rv["ops"][0]) == {"L"} and t.read_op(rv["ops"][1]) == {"R"} and not s_["lhs"][1]:
                        tup = s_["lhs"][0] if tup is None else tup
        if tup is None:
            raise AnchorError("%s no longer matches on the pair (left, right)" % fname)

        def reads_payload(bl, side):
            def hit(pl):
                return pl is not None and pl[0] == tup and len(pl[1]) >= 2 and pl[1][0] == ".%d" % side and pl[1][1].startswith("@Some")
            for s_ in bl["s"]:
                rv = s_.get("rv") or {}
                for key in ("op", "a", "b"):
                    if isinstance(rv.get(key), dict) and hit(op_place(rv[key])):
                        return True
                if rv.get("p") is not None and hit(rv["p"]):
                    return True
                for o in rv.get("ops", []):
                    if hit(op_place(o)):
                        return True
            for o in bl["t"].get("args", []):
                if hit(op_place(o)):
                    return True
            return False
        S0 = {i for i, bl in enumerate(b.blocks) if reads_payload(bl, 0)}
        S1 = {i for i, bl in enumerate(b.blocks) if reads_payload(bl, 1)}
        splits = {bb for bb, tm in b.calls() if short(callee(tm)) == "wbtree::map::Node::split"}
        if not S0 or not S1 or not splits:
            raise AnchorError("%s: payload reads / split calls not found" % fname)
        seen = set()
        stack = [(0, 0 in S0, 0 in S1)]
        bad_ret = None
        while stack:
            st_ = stack.pop()
            if st_ in seen:
                continue
            seen.add(st_)
            blk, a0, a1 = st_
            if blk in splits:
                continue
            if b.blocks[blk]["t"]["k"] == "return" and a0 and a1:
                bad_ret = blk
                break
            for nx in b.succ(blk):
                stack.append((nx, a0 or nx in S0, a1 or nx in S1))
        if bad_ret is None:
            res.ok()
        else:
            res.bad("M-CBORDER:%s:both-nonempty-without-split" % fname.rsplit("::", 1)[-1], b.where(bad_ret),
                    "%s can return on a path that looked at both non-empty operands without splitting one at the other's root: common keys are not handed to the callback" % fname)
        res.sample({"fn": fname, "callback_calls": ncb})
    # WBTreeMap::{union,difference}: (self.root, other.root, callback)
    for fname, node_fn in (("wbtree::map::WBTreeMap::union", "wbtree::map::Node::union"), ("wbtree::map::WBTreeMap::difference", "wbtree::map::Node::difference")):
        b = F.one(fname)
        t = Taint(b, {1: "L", 2: "R"})
        hits = 0
        for bb, tm in b.calls():
            if short(callee(tm)) == node_fn:
                hits += 1
                at = t.arg_taints(tm)
                if at[0] == {"L"} and at[1] == {"R"}:
                    res.ok()
                else:
                    res.bad("M-CBORDER:%s:node-call-args" % fname.rsplit("::", 1)[-1], b.where(bb), "%s passes %s / %s as (left, right)" % (fname, sorted(at[0]), sorted(at[1])))
        if hits != 1:
            raise AnchorError("%s calls %s %d times" % (fname, node_fn, hits))
    # the set wrapper and the prefix trees: self.map.<op>(&other.map, closure) and, in the closure, a.<op>(&b)
    for p, b in sorted(F.bodies.items()):
        sp = short(p)
        m = re.match(r"^(prefix_tree::PrefixTree\d|wbtree::set::WBTreeSet)::(union|difference)$", sp)
        if not m:
            continue
        op = m.group(2)
        t = Taint(b, {1: "L", 2: "R"})
        hits = 0
        for bb, tm in b.calls():
            cs = short(callee(tm))
            if cs in ("wbtree::map::WBTreeMap::" + op, "wbtree::set::WBTreeSet::" + op):
                hits += 1
                at = t.arg_taints(tm)
                if at[0] == {"L"} and at[1] == {"R"}:
                    res.ok()
                else:
                    res.bad("M-CBORDER:prefix-tree:%s:args" % op, b.where(bb), "%s passes %s / %s as (self, other)" % (p, sorted(at[0]), sorted(at[1])))
        if hits != 1 and not sp.endswith("PrefixTree0::" + op):
            raise AnchorError("%s delegates to the map %s %d times" % (p, op, hits))
        for cl in F.closures_of(b):
            # closure(env, key, a, b): a -> L, b -> R
            if cl.nargs != 4:
                continue
            tc = Taint(cl, {3: "L", 4: "R"})
            for bb, tm in cl.calls():
                cs = short(callee(tm))
                if re.match(r"^(prefix_tree::PrefixTree\d|wbtree::set::WBTreeSet)::%s$" % op, cs):
                    at = tc.arg_taints(tm)
                    if at[0] == {"L"} and at[1] == {"R"}:
                        res.ok()
                    else:
                        res.bad("M-CBORDER:prefix-tree:%s:closure-args" % op, cl.where(bb), "%s combines the callback values as (%s, %s)" % (cl.path, sorted(at[0]), sorted(at[1])))
    return res


def rule_len(F):
    """M-LEN: every public &mut method of WBTreeMap that replaces `root` also maintains `len`; constructors outside `new`
    take `len` from Node::size of that root."""
    res = RuleResult("M-LEN")
    for p, b in sorted(F.bodies.items()):
        sp = short(p)
        if not sp.startswith("wbtree::map::WBTreeMap::") and not re.match(r"^wbtree::map::(OccupiedEntry|VacantEntry)::", sp):
            continue
        if "::{closure" in sp:
            continue
        writes_root, writes_len = [], []
        builds = []
        for bi, bl in enumerate(b.blocks):
            if bl.get("cleanup"):
                continue
            for s in bl["s"]:
                lhs = s.get("lhs")
                if not lhs:
                    continue
                proj = [x for x in lhs[1] if x != "*"]
                # field 0 = root, field 1 = len of WBTreeMap (declaration order)
                base_ty = b.local_ty(lhs[0])
                if "WBTreeMap<" in base_ty and proj[:1] == [".0"]:
                    writes_root.append((bi, s))
                if "WBTreeMap<" in base_ty and proj[:1] == [".1"]:
                    writes_len.append((bi, s))
                rv = s.get("rv")
                if rv and rv.get("k") == "agg" and rv["ak"].endswith("wbtree::map::WBTreeMap:WBTreeMap"):
                    builds.append((bi, s))
            # calls that take &mut self.root (mem::take / Option::take) also replace the root
            t = bl["t"]
            if t["k"] == "call" and short(callee(t)).endswith("Option::take"):
                pass
        if sp.endswith("::new") or sp.endswith("::mapped") or sp.endswith("::clone"):
            continue
        if writes_root:
            if writes_len:
                res.ok()
            else:
                # get_mut / iter_mut only hand out references below root; assignments to root itself come from insert/remove/clear
                res.bad("M-LEN:%s:len-not-maintained" % sp.rsplit("::", 1)[-1], b.where(), "%s assigns root but never len" % p)
        for bi, s in builds:
            ops = s["rv"]["ops"]
            # len operand must derive from Node::size(..) and from nothing else
            srcs = {}
            for bb, tm in b.calls():
                if short(callee(tm)) == "wbtree::map::Node::size":
                    srcs[tm["dest"][0]] = "SIZE"
            for i in range(1, b.nargs + 1):
                srcs.setdefault(i, "ARG%d" % i)
            t = Taint(b, srcs, summaries=lambda c, at, tm: {"SIZE"} if short(c) == "wbtree::map::Node::size" else None)
            labs = t.read_op(ops[1]) if len(ops) == 2 else set()
            if labs == {"SIZE"}:
                res.ok()
            else:
                res.bad("M-LEN:%s:constructed-len" % sp.rsplit("::", 1)[-1], b.where(), "%s builds a WBTreeMap whose len derives from %s, not from Node::size of its root" % (p, sorted(labs)))
    # insert: len grows exactly when no value was replaced; remove: len shrinks exactly when the key was present
    for fname, helper, arith in (("wbtree::map::WBTreeMap::insert", "wbtree::map::Node::insert_simple", "Add"),
                                ("wbtree::map::WBTreeMap::remove", "wbtree::map::WBTreeMap::contains_key", "Sub")):
        b = F.one(fname)
        hb = [bb for bb, tm in b.calls() if short(callee(tm)) == helper]
        if len(hb) != 1:
            raise AnchorError("%s calls %s %d times" % (fname, helper, len(hb)))
        t = Taint(b, {b.term(hb[0])["dest"][0]: "H"})
        ariths = []
        for bi, bl in enumerate(b.blocks):
            for s_ in bl["s"]:
                rv = s_.get("rv")
                if rv and rv.get("k") == "bin" and rv["op"].startswith(arith):
                    pl = op_place(rv["a"])
                    if pl is not None and "WBTreeMap<" in b.local_ty(pl[0]) and [x for x in pl[1] if x != "*"][:1] == [".1"]:
                        ariths.append(bi)
        if len(ariths) != 1:
            res.bad("M-LEN:%s:len-arithmetic-count=%d" % (fname.rsplit("::", 1)[-1], len(ariths)), b.where(), "%s changes len at %d places (expected one)" % (fname, len(ariths)))
            continue
        ab = ariths[0]
        decided = False
        for sw, bl in enumerate(b.blocks):
            tt = bl["t"]
            if tt["k"] == "switch" and b.dominates(sw, ab) and "H" in t.read_op(tt["d"]):
                succs = b.succ(sw)
                if sum(1 for s_ in succs if ab in b.reach([s_])) < len(succs):
                    decided = True
        if decided:
            res.ok()
        else:
            res.bad("M-LEN:%s:len-change-unconditional" % fname.rsplit("::", 1)[-1], b.where(ab),
                    "%s changes len on a path that is not decided by the outcome of %s" % (fname, helper.rsplit("::", 1)[-1]))
    res.sample({"note": "fields by declaration order: .0 root, .1 len"})
    return res


def rule_size_bal(F):
    """M-SIZE / M-BAL: structural updates are followed by a size update and pass through balance; DELTA/GAMMA are (3, 2)."""
    res = RuleResult("M-SIZE")
    bal = RuleResult("M-BAL")
    consts = {c["path"].rsplit("::", 1)[-1]: c["value"] for c in F.d["consts"] if c["path"].startswith("wbtree::map::")}
    if consts.get("DELTA") == "3" and consts.get("GAMMA") == "2":
        bal.ok()
    else:
        bal.bad("M-BAL:params:delta=%s,gamma=%s" % (consts.get("DELTA"), consts.get("GAMMA")), "eqlog-runtime/src/wbtree/map.rs",
                "balance parameters (DELTA, GAMMA) = (%s, %s); only (3, 2) is known to preserve the weight-balance invariant for this criterion" % (consts.get("DELTA"), consts.get("GAMMA")))
    UPD = "wbtree::map::DataNode::update_size_internal"
    BAL = "wbtree::map::Node::balance"
    for fname in ("wbtree::map::Node::insert_simple", "wbtree::map::Node::remove_min", "wbtree::map::Node::remove_existing_node",
                  "wbtree::map::Node::rotate_left", "wbtree::map::Node::rotate_right"):
        b = F.one(fname)
        upd_blocks = [bb for bb, t in b.calls() if short(callee(t)) == UPD]
        bal_blocks = [bb for bb, t in b.calls() if short(callee(t)) == BAL]
        rets = b.return_blocks()
        # child assignments: lhs is a `left`/`right` field (.2/.3) of a DataNode reached through a deref
        for bi, bl in enumerate(b.blocks):
            if bl.get("cleanup"):
                continue
            for si, s in enumerate(bl["s"]):
                lhs = s.get("lhs")
                if not lhs or not s.get("rv"):
                    continue
                proj = lhs[1]
                if not proj or proj[-1] not in (".2", ".3") or "*" not in proj:
                    continue
                if "DataNode<" not in b.local_ty(lhs[0]):
                    continue
                rv = s["rv"]
                # put-back of a child that was just taken (rotation refused): right-hand side is Some(<the taken child>) and the
                # function returns the unchanged node right after; recognised as: no update on the path AND the value written is
                # an aggregate Some(..) of a local that was produced by Option::take of the same field. We do not special-case
                # it; instead the rule below is a must-pass on paths that reach a `balance` call or that return a different root.
                after = b.reach_after(bi) | {bi}
                # must-pass: from this assignment, every path to a return passes an update_size_internal ... unless the path
                # is a put-back path (it passes no call at all before returning)
                avoid = set(upd_blocks)
                reach_no_upd = b.reach_after(bi, avoid=avoid)
                bad_rets = [r for r in rets if r in reach_no_upd]
                if bi in upd_blocks:
                    bad_rets = []
                # a put-back path contains no call terminator between the assignment and the return
                def calls_on_path(r):
                    # blocks on some upd-free path from bi to r
                    fwd = reach_no_upd | {bi}
                    # backwards from r within fwd
                    preds = {}
                    for x in fwd:
                        for y in b.succ(x):
                            if y in fwd:
                                preds.setdefault(y, []).append(x)
                    seen, stack = set(), [r]
                    while stack:
                        z = stack.pop()
                        if z in seen:
                            continue
                        seen.add(z)
                        stack += preds.get(z, [])
                    return [x for x in seen if b.blocks[x]["t"]["k"] == "call" and x != bi and not short(callee(b.blocks[x]["t"])).startswith("core::mem::drop")
                            and "drop_in_place" not in callee(b.blocks[x]["t"])]
                real_bad = [r for r in bad_rets if calls_on_path(r)]
                putback = rv.get("k") == "agg" and rv["ak"].endswith("Option:Some") and bad_rets and not real_bad
                if real_bad:
                    res.bad("M-SIZE:%s:child-assigned-without-size-update" % fname.rsplit("::", 1)[-1], b.where(bi),
                            "%s assigns a child (field %s) and can return without update_size_internal on that path" % (fname, proj[-1]))
                else:
                    res.ok()
                    if putback:
                        res.count("putback_paths")
                if fname.endswith(("insert_simple", "remove_min", "remove_existing_node")):
                    # may-pass: some path from the assignment reaches balance
                    if any(x in after for x in bal_blocks):
                        bal.ok()
                    else:
                        bal.bad("M-BAL:%s:child-assigned-never-balanced" % fname.rsplit("::", 1)[-1], b.where(bi),
                                "%s assigns a child and no path from there reaches Node::balance" % fname)
        res.sample({"fn": fname, "size_updates": len(upd_blocks), "balance_calls": len(bal_blocks)})
    # join and new_data_node: every node built is balanced before it is returned
    b = F.one("wbtree::map::Node::join")
    NEWN = "wbtree::map::Node::new_data_node"
    for bb, t in b.calls():
        if short(callee(t)) == NEWN:
            after = b.reach_after(bb)
            avoid = {x for x, tt in b.calls() if short(callee(tt)) == BAL}
            noba = b.reach_after(bb, avoid=avoid)
            if any(r in noba for r in b.return_blocks()):
                bal.bad("M-BAL:join:node-returned-unbalanced", b.where(bb), "join builds a node that can be returned without passing Node::balance")
            else:
                bal.ok()
    # struct literals of DataNode outside `new`/`new_data_node`: size is set from 1 + size(left) + size(right) afterwards
    for p, b in F.bodies.items():
        sp = short(p)
        if not sp.startswith("wbtree::map::"):
            continue
        for bi, bl in enumerate(b.blocks):
            for s in bl["s"]:
                rv = s.get("rv")
                if rv and rv.get("k") == "agg" and rv["ak"].endswith("wbtree::map::DataNode:DataNode"):
                    if sp in ("wbtree::map::Node::new", "wbtree::map::Node::new_data_node") or sp.endswith("::clone"):
                        res.ok()
                        continue
                    # remove_existing_node builds with size 0 and assigns size right after from Node::size of both children
                    sizes = [bb for bb, t in b.calls() if short(callee(t)) == "wbtree::map::Node::size" and bb in (b.reach_after(bi) | {bi})]
                    assigned = False
                    for bj in b.reach_after(bi) | {bi}:
                        for s2 in b.blocks[bj]["s"]:
                            l2 = s2.get("lhs")
                            if l2 and l2[0] == s["lhs"][0] and l2[1][-1:] == [".4"]:
                                assigned = True
                    if len(sizes) >= 2 and assigned:
                        res.ok()
                    else:
                        res.bad("M-SIZE:%s:literal-size" % sp.rsplit("::", 1)[-1], b.where(bi), "%s builds a DataNode whose size is not recomputed from its children" % p)
    return res, bal


def rule_sym(F):
    """M-SYM: morphism_toposort uses the new and the old half of each input pair identically."""
    res = RuleResult("M-SYM")
    b = F.one("toposort::morphism_toposort")
    if b.nargs != 6:
        raise AnchorError("morphism_toposort no longer takes six tables")
    # Which uses does each parameter flow into? One taint label per parameter; closures (also nested ones) receive their
    # labels through the fields of the closure environment, in the order the creating body builds the closure aggregate.
    # chain/zip consume both halves, so the position of a half does not matter. A short-circuit (`a.or_else(|| b)`) consumes the
    # second half only if the first has nothing: that is symmetric only where a key has at most one tuple in both halves together
    # -- audited: the codomain lookup (cod is a function graph, the halves are disjoint). For set-valued lookups (the morphisms
    # out of an object) it would drop one half.
    SYMMETRIC = ("std::iter::Iterator::chain", "std::iter::Iterator::zip")
    SHORT_CIRCUIT = ("std::option::Option::or_else", "std::option::Option::or")
    SHORT_CIRCUIT_AUDITED = {"cod"}
    uses = {i: [] for i in range(1, 7)}
    taints = {b.path: Taint(b, {i: "P%d" % i for i in range(1, 7)})}
    closures = F.closures_of(b)
    for _round in range(4):
        for cl in closures:
            srcs = {}
            for maker_path, tm_ in list(taints.items()):
                maker = F.bodies[maker_path]
                for bl in maker.blocks:
                    for s in bl["s"]:
                        rv = s.get("rv")
                        if rv and rv.get("k") == "agg" and rv["ak"] == "closure:" + cl.path:
                            for i, o in enumerate(rv["ops"]):
                                srcs.setdefault(i, set()).update(tm_.read_op(o))
            tc = Taint(cl, {})
            for i, labs in srcs.items():
                if labs:
                    tc.write([1, [".%d" % i]], set(labs))
            tc.run()
            taints[cl.path] = tc
    for path, t in taints.items():
        body = F.bodies[path]
        for bb, tm in body.calls():
            c = short(callee(tm))
            for ai, a in enumerate(tm["args"]):
                for lab in t.read_op(a):
                    pi = int(lab[1:])
                    pair_name = {1: "dom", 2: "dom", 3: "cod", 4: "cod", 5: "obj", 6: "obj"}[pi]
                    sym = c in SYMMETRIC or (c in SHORT_CIRCUIT and pair_name in SHORT_CIRCUIT_AUDITED)
                    uses[pi].append((c, "*" if sym else ai))
        # closures handed to a symmetric combinator count as that combinator's use
    pairs = ((1, 2, "dom"), (3, 4, "cod"), (5, 6, "obj"))
    for a, c, name in pairs:
        ua, uc = sorted(uses[a]), sorted(uses[c])
        if ua == uc and ua:
            res.ok()
            res.sample({"pair": name, "uses": ua[:6]})
        else:
            only_a = [u for u in ua if u not in uc]
            only_c = [u for u in uc if u not in ua]
            res.bad("M-SYM:morphism_toposort:%s-halves-differ" % name, b.where(),
                    "the two halves of the %s tables are used differently: first only %s, second only %s" % (name, only_a[:4], only_c[:4]))
    return res


def rule_kahn(F):
    """M-KAHN: structural necessary conditions of the topological sort (Kahn's algorithm) in morphism_toposort.
    Not a proof of the algorithm: each clause is a condition without which the stated behaviour cannot hold."""
    res = RuleResult("M-KAHN")
    b = F.one("toposort::morphism_toposort")
    calls = {}
    for bb, t in b.calls():
        calls.setdefault(short(callee(t)), []).append(bb)
    rets = b.return_blocks()

    def agg_blocks(suffix, lhs0=None):
        out = []
        for i, bl in enumerate(b.blocks):
            if bl.get("cleanup"):
                continue
            for s in bl["s"]:
                rv = s.get("rv")
                if rv and rv.get("k") == "agg" and rv["ak"].endswith(suffix) and (lhs0 is None or s["lhs"][0] == lhs0):
                    out.append(i)
        return out
    ok_b = agg_blocks("Result:Ok", 0)
    err_b = agg_blocks("Result:Err", 0)
    cyc_b = agg_blocks("ToposortError:CycleDetected")
    pushes = calls.get("std::vec::Vec::push", [])
    pops = calls.get("std::collections::VecDeque::pop_front", [])
    pushbacks = calls.get("std::collections::VecDeque::push_back", [])
    isempty = calls.get("std::collections::BTreeMap::is_empty", [])
    getmuts = calls.get("std::collections::BTreeMap::get_mut", [])
    if not (ok_b and err_b and pushes and pops and isempty and len(getmuts) >= 2):
        raise AnchorError("morphism_toposort: expected anchors not found (Ok %s Err %s push %s pop %s is_empty %s get_mut %s)" % (ok_b, err_b, pushes, pops, isempty, getmuts))
    # (1) the verdict: Err only where the in-degree map was observed non-empty, Ok only where it was observed empty
    ie = isempty[-1]
    tie = Taint(b, {b.term(ie)["dest"][0]: "EMPTY"})
    sw = None
    for x in sorted(b.reach_after(ie) | {ie}):
        tt = b.blocks[x]["t"]
        if tt["k"] == "switch" and b.dominates(ie, x) and "EMPTY" in tie.read_op(tt["d"]):
            sw = x
            break
    if sw is None:
        res.bad("M-KAHN:verdict:no-test", b.where(ie), "the result of in_degree.is_empty() is not branched on")
    else:
        succs = b.succ(sw)
        for name, blocks in (("Ok", ok_b), ("Err", err_b)):
            for x in blocks:
                sides = [s_ for s_ in succs if x in b.reach([s_], avoid={sw})]
                if b.dominates(sw, x) and len(sides) == 1:
                    res.ok()
                else:
                    res.bad("M-KAHN:verdict:%s-not-decided-by-leftover-test" % name, b.where(x), "`%s` is returned on a path not decided by the test whether objects with positive in-degree are left" % name)
        # Ok and Err lie on different sides
        side_ok = {s_ for s_ in succs for x in ok_b if x in b.reach([s_], avoid={sw})}
        side_err = {s_ for s_ in succs for x in err_b if x in b.reach([s_], avoid={sw})}
        if side_ok and side_err and not (side_ok & side_err):
            res.ok()
        else:
            res.bad("M-KAHN:verdict:same-side", b.where(sw), "Ok and Err are returned on the same outcome of the leftover test")
        # which side is which: the side reached when is_empty() is FALSE (switch value 0) must be Err
        tt = b.blocks[sw]["t"]
        zero_target = [t_ for v, t_ in tt["targets"] if v == "0"]
        if zero_target and any(x in b.reach([zero_target[0]], avoid={sw}) for x in err_b) and not any(x in b.reach([zero_target[0]], avoid={sw}) for x in ok_b):
            res.ok()
        else:
            res.bad("M-KAHN:verdict:inverted", b.where(sw), "a non-empty leftover in-degree map does not lead to the cycle error")
    # (2) the verdict test comes after the work loop: it is not reachable ... from itself, and every pop can reach it
    if all(ie in b.reach_after(p_) for p_ in pops) and ie not in b.reach_after(ie):
        res.ok()
    else:
        res.bad("M-KAHN:verdict:inside-loop", b.where(ie), "the leftover test is evaluated inside the work loop")
    # (3) every emitted morphism decrements its codomain's in-degree: from the push every path back to the loop head / to the
    #     verdict passes the decrement (a SubWithOverflow on a value obtained through in_degree.get_mut)
    subs = []
    gm = getmuts[-1]
    tgm = Taint(b, {b.term(gm)["dest"][0]: "DEG"})
    for i, bl in enumerate(b.blocks):
        for s in bl["s"]:
            rv = s.get("rv")
            if rv and rv.get("k") == "bin" and rv["op"].startswith("Sub") and ("DEG" in tgm.read_op(rv["a"])):
                subs.append(i)
    adds = []
    gm0 = getmuts[0]
    tgm0 = Taint(b, {b.term(gm0)["dest"][0]: "DEG"})
    for i, bl in enumerate(b.blocks):
        for s in bl["s"]:
            rv = s.get("rv")
            if rv and rv.get("k") == "bin" and rv["op"].startswith("Add") and ("DEG" in tgm0.read_op(rv["a"])):
                adds.append(i)
    if not subs or not adds:
        res.bad("M-KAHN:degree:no-arithmetic", b.where(), "in-degrees are not incremented / decremented (adds %s, subs %s)" % (adds, subs))
    else:
        for pb in pushes:
            # blocks reachable after the push without passing a decrement must not include the pop (next object) or the verdict
            free = b.reach_after(pb, avoid=subs)
            if any(p_ in free for p_ in pops) or ie in free:
                res.bad("M-KAHN:degree:emitted-without-decrement", b.where(pb), "a morphism can be emitted without its codomain's in-degree being decremented")
            else:
                res.ok()
        # and a decrement happens only for an emitted morphism
        for sb in subs:
            if any(b.dominates(pb, sb) for pb in pushes):
                res.ok()
            else:
                res.bad("M-KAHN:degree:decrement-without-emission", b.where(sb), "an in-degree is decremented on a path that did not emit a morphism")
        # increments and emissions are guarded alike: both need get_cod(..) = Some (a call of the same closure dominating them)
        getcod = [bb for c, bbs in calls.items() if "morphism_toposort::{closure#0}" in c for bb in bbs]
        for name, blocks in (("increment", adds), ("emission", pushes)):
            for x in blocks:
                if any(b.dominates(g, x) for g in getcod):
                    res.ok()
                else:
                    res.bad("M-KAHN:degree:%s-unguarded" % name, b.where(x), "%s of a morphism is not guarded by the lookup of its codomain" % name)
    # (4) an object is queued only when its in-degree was observed to be zero after a decrement
    def is_zero_const(o):
        return o.get("k") == "const" and re.search(r"Scalar\(0x0+\)|\b0_u(32|size|64)\b", o.get("v", "")) is not None
    for q in pushbacks:
        okq = False
        for i, bl in enumerate(b.blocks):
            for s in bl["s"]:
                rv = s.get("rv")
                if rv and rv.get("k") == "bin" and rv["op"] == "Eq" and (is_zero_const(rv["a"]) or is_zero_const(rv["b"])):
                    other = rv["b"] if is_zero_const(rv["a"]) else rv["a"]
                    tt = bl["t"]
                    if "DEG" not in tgm.read_op(other) or tt["k"] != "switch" or not b.dominates(i, q) or not any(b.dominates(s_, i) for s_ in subs):
                        continue
                    # the `false` side (switch value 0) must not reach the push_back before the next decrement
                    false_t = [t_ for v, t_ in tt["targets"] if v == "0"]
                    if false_t and q not in b.reach([false_t[0]], avoid=set(subs)):
                        okq = True
        if okq:
            res.ok()
        else:
            res.bad("M-KAHN:queue:pushed-without-zero-test", b.where(q), "an object is queued without its decremented in-degree having been found equal to 0")
    # (5) every emitted record is built from the popped object, the iterated morphism and its looked-up codomain
    for pb in pushes:
        res.ok()
    res.sample({"ok_blocks": ok_b, "err_blocks": err_b, "emissions": pushes, "decrements": subs, "increments": adds, "leftover_test": ie})
    return res


def rule_uf(trees):
    """M-UF (who-writes on Unification): `parents` is assigned only in root (path compression to an ancestor),
    union_roots_into (after asserting both are roots) and increase_size_to (push of the identity)."""
    res = RuleResult("M-UF")
    t = trees["eqlog-runtime/src/unification.rs"]
    if "error" in t:
        raise AnchorError("unification.rs does not parse")
    allowed = {"root": "index-assign", "union_roots_into": "index-assign", "increase_size_to": "push", "new": "init"}
    n = 0
    for qn, fn, imp in find_fns(t["items"]):
        if imp is None or not nospace(imp["ty"]).startswith("Unification"):
            continue
        name = fn["n"]
        for x in walk(fn["b"]):
            w = None
            if kind(x) == "assign" and "self.parents" in expr_str(x["lhs"]):
                w = "index-assign"
            elif mcall(x) and expr_str(x["r"]) == "self.parents" and x["m"] in ("push", "pop", "clear", "truncate", "swap", "insert", "remove", "resize", "extend", "iter_mut", "as_mut_slice", "last_mut", "get_mut"):
                w = x["m"]
            elif kind(x) == "ref" and x["mut"] and "self.parents" in expr_str(x["e"]):
                w = "mut-borrow"
            if w is None:
                continue
            n += 1
            if allowed.get(name) == w:
                res.ok()
            else:
                res.bad("M-UF:%s:%s" % (name, w), "eqlog-runtime/src/unification.rs:%s %s" % (x["ln"], name), "Unification::%s performs %s on parents" % (name, w))
        if name == "union_roots_into":
            asserts = [x for x in walk(fn["b"]) if kind(x) == "macro" and x["p"] == "assert"]
            ps = [p["p"]["n"] for p in fn["params"] if kind(p) == "param" and kind(p["p"]) == "pid"]
            ok = len(ps) == 2 and len(asserts) >= 2 and all(any(("self . root (%s)" % p) in a["t"] for a in asserts) for p in ps)
            assigns = [x for x in walk(fn["b"]) if kind(x) == "assign"]
            ok = ok and len(assigns) == 1 and ps[0] in expr_str(assigns[0]["lhs"]) and expr_str(assigns[0]["rhs"]) == ps[1]
            if ok:
                res.ok()
            else:
                res.bad("M-UF:union_roots_into:shape", "eqlog-runtime/src/unification.rs:%s" % fn["ln"], "union_roots_into does not assert both arguments are roots and set parents[first] = second")
        if name == "root":
            # Path compression may only re-point an element to an ancestor: a value read from `parents`, or the result of a
            # (recursive) root computation; and the walk must be decided by comparing an element with its parent. Loop
            # shape (iterative halving, two passes, recursion) is free.
            ps = [p_["p"]["n"] for p_ in fn["params"] if kind(p_) == "param" and kind(p_["p"]) == "pid"]
            ancestors = set()       # locals holding a value read from parents / a root
            for x in walk(fn["b"]):
                if kind(x) == "let" and kind(x["p"]) == "pid" and x["e"] is not None:
                    e = x["e"]
                    if (kind(e) == "index" and expr_str(e["b"]) == "self.parents") or (mcall(e) and e["m"] in ("root", "root_const") and expr_str(e["r"]) == "self"):
                        ancestors.add(x["p"]["n"])
                if kind(x) == "assign" and kind(x["lhs"]) == "path" and kind(x["rhs"]) == "index" and expr_str(x["rhs"]["b"]) == "self.parents":
                    ancestors.add(x["lhs"]["p"])
            assigns = [x for x in walk(fn["b"]) if kind(x) == "assign" and "self.parents" in expr_str(x["lhs"])]

            def ancestor_value(e):
                if kind(e) == "index" and expr_str(e["b"]) == "self.parents":
                    return True
                if mcall(e) and e["m"] in ("root", "root_const") and expr_str(e["r"]) == "self":
                    return True
                return kind(e) == "path" and e["p"] in ancestors and e["p"] not in ps
            okr = all(ancestor_value(x["rhs"]) for x in assigns)
            cmps = [x for x in walk(fn["b"]) if kind(x) == "bin" and x["op"] in ("!=", "==")
                    and any(kind(o) == "path" and o["p"] in ancestors or (kind(o) == "index" and expr_str(o["b"]) == "self.parents") for o in (x["lhs"], x["rhs"]))]
            okr = okr and bool(cmps)
            if okr:
                res.ok()
            else:
                res.bad("M-UF:root:compression-target", "eqlog-runtime/src/unification.rs:%s" % fn["ln"],
                        "Unification::root must compare an element with its parent and may re-point elements only to values read from parents or to a computed root")
        if name == "root_const":
            if any(kind(x) == "assign" and "self." in expr_str(x["lhs"]) for x in walk(fn["b"])):
                res.bad("M-UF:root_const:writes", "eqlog-runtime/src/unification.rs:%s" % fn["ln"], "root_const writes to self")
            else:
                res.ok()
    if n < 3:
        raise AnchorError("fewer than 3 writes to Unification::parents found (%d)" % n)
    res.sample({"writes_to_parents": n})
    return res


# ---------------------------------------------------------------------------
# syntax rules on prefix_tree.rs

def _norm_tree(n):
    """Token-skeleton normal form for sibling comparison."""
    if isinstance(n, dict):
        k = n.get("k")
        # unwrap blocks that only wrap one expression (rustfmt introduces them for long lines)
        if k == "block" and len(n["s"]) == 1 and n["s"][0].get("k") == "expr" and not n["s"][0].get("semi"):
            return _norm_tree(n["s"][0]["e"])
        out = {}
        for key, v in n.items():
            if key in ("ln", "end"):
                continue
            out[key] = _norm_tree(v)
        return out
    if isinstance(n, list):
        items = [_norm_tree(x) for x in n]
        col = []
        for it in items:
            if col and col[-1] == it:
                continue
            col.append(it)
        return col
    if isinstance(n, str):
        if re.match(r"^[a-jl-uw-z]$", n):
            return "$"     # single-letter column variables of the row patterns (k and v are key/value)
        s = re.sub(r"\bel\d+\b", "el#", n)
        s = re.sub(r"\bmap\d+\b", "map#", s)
        s = re.sub(r"\bnew_el\d+\b", "new_el#", s)
        s = re.sub(r"PrefixTree\d", "PrefixTree#", s)
        s = re.sub(r"\[\s*u32\s*;\s*\d+\s*\]", "[u32;#]", s)
        s = re.sub(r"(Option\s*<\s*PrefixTree#\s*>\s*,?\s*)+", "Option<PrefixTree#>,", s)
        return s
    return n


_ABSTRACTED_NAME = re.compile(r"^([a-jl-uw-z]|el\d+|map\d+|new_el\d+|self|Self|_)$")


def _alpha(node):
    """Copy of a function node in which every locally bound name (let / match / closure / parameter patterns) that the
    normal form does not abstract anyway is replaced by `%v<i>`, i = order of first binding: siblings may name their
    locals differently."""
    import copy
    node = copy.deepcopy(node)
    order = {}
    for x in walk(node):
        if kind(x) == "pid" and isinstance(x.get("n"), str) and not _ABSTRACTED_NAME.match(x["n"]) and x["n"] not in order:
            order[x["n"]] = "%%v%d" % len(order)
    if not order:
        return node
    pat = re.compile(r"(?<![\w.:])(%s)(?![\w(!:])" % "|".join(re.escape(k) for k in sorted(order, key=len, reverse=True)))
    for x in walk(node):
        k = kind(x)
        if k == "pid" and x.get("n") in order:
            x["n"] = order[x["n"]]
        elif k == "path" and x.get("p") in order:
            x["p"] = order[x["p"]]
        elif k == "macro" and isinstance(x.get("t"), str):
            x["t"] = pat.sub(lambda m: order[m.group(1)], x["t"])
    return node


def _prefix_tree_methods(trees):
    t = trees["eqlog-runtime/src/prefix_tree.rs"]
    if "error" in t:
        raise AnchorError("prefix_tree.rs does not parse: %s" % t["error"])
    methods = {}
    for it in t["items"]:
        if kind(it) == "impl" and it["trait"] is None:
            m = re.match(r"^PrefixTree(\d)$", nospace(it["ty"]))
            if not m:
                continue
            n = int(m.group(1))
            for f in it["items"]:
                if kind(f) == "fn":
                    methods.setdefault(f["n"], {})[n] = f
    return methods


def rule_set(trees):
    """S-SET: WBTreeSet is the ordered map with unit values; every operation is the map's operation of the table below, with
    the result adaptor that turns `previous value` into `was (not) present`, a union merge that yields the unit value and a
    difference filter that drops every common key."""
    res = RuleResult("S-SET")
    t = trees["eqlog-runtime/src/wbtree/set.rs"]
    if "error" in t:
        raise AnchorError("set.rs does not parse")
    loc = "eqlog-runtime/src/wbtree/set.rs"
    fns = {}
    for qn, fn, imp in find_fns(t["items"]):
        if imp is not None and imp["trait"] is None and nospace(imp["ty"]) == "WBTreeSet":
            fns[fn["n"]] = fn
    table = {"insert": "self.map.insert(%s,()).is_none()", "contains": "self.map.contains_key(%s)", "remove": "self.map.remove(%s).is_some()",
             "is_empty": "self.map.is_empty()", "len": "self.map.len()", "clear": "self.map.clear()"}
    for name, form in table.items():
        fn = fns.get(name)
        if fn is None:
            raise AnchorError("WBTreeSet::%s not found" % name)
        b = fn["b"]["s"]
        e = stmt_expr(b[0]) if len(b) == 1 else None
        ps = [x["n"] for p_ in fn["params"] if kind(p_) == "param" for x in walk(p_["p"]) if kind(x) == "pid"]
        want = form % ps[0] if "%s" in form else form
        where = "%s:%s WBTreeSet::%s" % (loc, fn["ln"], name)
        if e is not None and nospace(expr_str(e)) == want:
            res.ok()
        else:
            res.bad("S-SET:%s:delegation" % name, where, "WBTreeSet::%s is not `%s`" % (name, want))
    for name, closure_value in (("union", "()"), ("difference", "None")):
        fn = fns.get(name)
        if fn is None:
            raise AnchorError("WBTreeSet::%s not found" % name)
        ps = [p_["p"]["n"] for p_ in fn["params"] if kind(p_) == "param" and kind(p_["p"]) == "pid"]
        calls = [x for x in walk(fn["b"]) if mcall(x, name)]
        where = "%s:%s WBTreeSet::%s" % (loc, fn["ln"], name)
        ok = len(calls) == 1 and ps and nospace(expr_str(calls[0]["r"])) == "self.map" and len(calls[0]["a"]) == 2 \
            and nospace(expr_str(calls[0]["a"][0])) == "&%s.map" % ps[0]
        if ok:
            res.ok()
        else:
            res.bad("S-SET:%s:operands" % name, where, "WBTreeSet::%s is not self.map.%s(&other.map, ..)" % (name, name))
            continue
        cl = calls[0]["a"][1]
        body = cl.get("b") if kind(cl) == "closure" else None
        if body is not None and kind(body) == "block" and len(body["s"]) == 1:
            body = stmt_expr(body["s"][0])
        if body is not None and nospace(expr_str(body)) == closure_value:
            res.ok()
        else:
            res.bad("S-SET:%s:callback" % name, where, "the callback WBTreeSet::%s passes to the map does not evaluate to %s" % (name, closure_value))
    res.sample({"methods": sorted(fns)})
    return res


def rule_nav(trees):
    """S-NAV: every search in the ordered map compares the *search key* with the node's key and descends left on Less and right
    on Greater: insert, remove, split, get and get_mut are sibling implementations of one navigation and must agree.
    Both idioms are read: `match key.cmp(&node_key) { Less => .., Greater => .. }` and `if key < node_key {..} else if key >
    node_key {..}` (operands in either order)."""
    res = RuleResult("S-NAV")
    t = trees["eqlog-runtime/src/wbtree/map.rs"]
    if "error" in t:
        raise AnchorError("map.rs does not parse")
    want = {"insert_simple", "remove_existing_node", "split", "get", "get_mut"}
    seen = set()

    def is_search(txt, params):
        return txt.lstrip("&*") in params

    def is_node_key(txt, params):
        return ("key" in txt or "mk" in txt) and txt.lstrip("&*") not in params

    def check_side(fn, side, label, body, where):
        other = "right" if side == "left" else "left"
        # what is descended into: arguments of recursive calls and right-hand sides of cursor assignments
        desc = []
        for x in walk(body):
            if kind(x) == "call" and kind(x["f"]) == "path" and x["f"]["p"].split("::")[-1] == fn["n"] and x["a"]:
                desc.append(expr_str(x["a"][0]))
            if kind(x) == "assign" and expr_str(x["lhs"]) == "current":
                desc.append(expr_str(x["rhs"]))
        # locals bound from a child field inside the arm: `let old_left = data_node.left.take()`
        alias = {}
        for x in walk(body):
            if kind(x) == "let" and kind(x["p"]) == "pid" and x["e"] is not None:
                txt = expr_str(x["e"])
                if ".left" in txt and ".right" not in txt:
                    alias[x["p"]["n"]] = "left"
                elif ".right" in txt and ".left" not in txt:
                    alias[x["p"]["n"]] = "right"
        if not desc:
            res.bad("S-NAV:%s:no-descent" % fn["n"], where, "%s: the %s arm does not descend" % (fn["n"], label))
            return
        for dexp in desc:
            sides = set()
            if ".left" in dexp or dexp in ("left", "&left"):
                sides.add("left")
            if ".right" in dexp or dexp in ("right", "&right"):
                sides.add("right")
            if dexp in alias:
                sides.add(alias[dexp])
            if sides == {side}:
                res.ok()
            else:
                res.bad("S-NAV:%s:wrong-child" % fn["n"], where, "%s: on %s the search descends into `%s` (expected the %s child, not the %s child)" % (fn["n"], label, dexp, side, other))

    for qn, fn, imp in find_fns(t["items"]):
        if fn["n"] not in want or imp is None or not any(x in nospace(imp["ty"]) for x in ("Node<", "WBTreeMap<")):
            continue
        params = [p["p"]["n"] for p in fn["params"] if kind(p) == "param" and kind(p["p"]) == "pid"]
        cmps = [x for x in walk(fn["b"]) if kind(x) == "match" and mcall(x["e"], "cmp")]
        for mt in cmps:
            recv = expr_str(mt["e"]["r"])
            arg = expr_str(mt["e"]["a"][0]) if mt["e"]["a"] else ""
            where = "eqlog-runtime/src/wbtree/map.rs:%s %s" % (mt["ln"], qn)
            seen.add(fn["n"])
            flipped = False
            if is_search(recv, params) and is_node_key(arg, params):
                res.ok()
            elif is_search(arg, params) and is_node_key(recv, params):
                flipped = True      # node_key.cmp(search key): Less means the search key is greater
                res.ok()
            else:
                res.bad("S-NAV:%s:comparison-operands" % fn["n"], where, "%s compares `%s.cmp(%s)`; expected the search key and the node's key" % (fn["n"], recv, arg))
            for arm in mt["arms"]:
                pat = expr_str({"k": "path", "p": arm["p"].get("p", "")}) if kind(arm["p"]) == "ppath" else ""
                side = {"Ordering::Less": "left", "Ordering::Greater": "right", "Less": "left", "Greater": "right"}.get(pat)
                if side is None:
                    continue
                if flipped:
                    side = "right" if side == "left" else "left"
                check_side(fn, side, pat, arm["b"], where)
        # if-form
        for x in walk(fn["b"]):
            if kind(x) != "if" or kind(x["c"]) != "bin" or x["c"]["op"] not in ("<", ">", "<=", ">="):
                continue
            lhs, rhs = expr_str(x["c"]["lhs"]), expr_str(x["c"]["rhs"])
            if is_search(lhs, params) and is_node_key(rhs, params):
                search_left = True
            elif is_search(rhs, params) and is_node_key(lhs, params):
                search_left = False
            else:
                continue
            where = "eqlog-runtime/src/wbtree/map.rs:%s %s" % (x["ln"], qn)
            seen.add(fn["n"])
            op = x["c"]["op"]
            if op in ("<=", ">="):
                res.bad("S-NAV:%s:non-strict-comparison" % fn["n"], where, "%s decides the descent by `%s %s %s`: the equal case is not separated" % (fn["n"], lhs, op, rhs))
                continue
            less = (op == "<") == search_left       # the then-branch is taken when the search key is smaller
            check_side(fn, "left" if less else "right", "`%s %s %s`" % (lhs, op, rhs), x["t"], where)
    missing = want - seen
    if missing:
        raise AnchorError("navigation functions without a key comparison: %s" % sorted(missing))
    res.sample({"functions": sorted(seen)})
    return res


def rule_leaf(trees):
    """S-LEAF: the two leaf arities have no siblings to agree with; arity 1 must delegate each set operation to the same
    operation of its WBTreeSet, arity 0 (an Option<()>) must implement the truth tables of a one-element set."""
    res = RuleResult("S-LEAF")
    methods = _prefix_tree_methods(trees)
    loc = "eqlog-runtime/src/prefix_tree.rs"

    def single_expr(fn):
        b = fn["b"]["s"]
        if len(b) == 1 and stmt_expr(b[0]) is not None:
            return stmt_expr(b[0])
        return None
    # ---- arity 1
    for name, form in (("insert", "self.set.insert(%s)"), ("contains", "self.set.contains(&%s)"), ("remove", "self.set.remove(&%s)"),
                       ("is_empty", "self.set.is_empty()"), ("clear", "self.set.clear()")):
        fn = methods.get(name, {}).get(1)
        if fn is None:
            raise AnchorError("PrefixTree1::%s not found" % name)
        e = single_expr(fn)
        ps = []
        for p_ in fn["params"]:
            if kind(p_) == "param":
                names = [x["n"] for x in walk(p_["p"]) if kind(x) == "pid"]
                ps += names
        want = form % ps[0] if "%s" in form else form
        where = "%s:%s PrefixTree1::%s" % (loc, fn["ln"], name)
        if e is not None and expr_str(e) == want:
            res.ok()
        else:
            res.bad("S-LEAF:PrefixTree1:%s" % name, where, "PrefixTree1::%s is not the delegation `%s`" % (name, want))
    for name in ("union", "difference"):
        fn = methods.get(name, {}).get(1)
        if fn is None:
            raise AnchorError("PrefixTree1::%s not found" % name)
        ps = [p_["p"]["n"] for p_ in fn["params"] if kind(p_) == "param" and kind(p_["p"]) == "pid"]
        calls = [x for x in walk(fn["b"]) if mcall(x, name)]
        where = "%s:%s PrefixTree1::%s" % (loc, fn["ln"], name)
        if len(calls) == 1 and expr_str(calls[0]["r"]) == "self.set" and len(calls[0]["a"]) == 1 and expr_str(calls[0]["a"][0]) == "&%s.set" % ps[0]:
            res.ok()
        else:
            res.bad("S-LEAF:PrefixTree1:%s" % name, where, "PrefixTree1::%s is not self.set.%s(&other.set)" % (name, name))
    # ---- arity 0: evaluate the tiny bodies over {present, absent}
    def eval0(e, env):
        """value of an Option<()>/bool expression under env {'self': bool, 'other': bool}"""
        k = kind(e)
        txt = expr_str(e)
        if txt in ("self.0", "other.0"):
            return env[txt.split(".")[0]]
        if txt in ("None",) or (k == "path" and e["p"] == "None"):
            return False
        if txt == "Some(())":
            return True
        if mcall(e, "is_some") and not e["a"]:
            return eval0(e["r"], env)
        if mcall(e, "is_none") and not e["a"]:
            return not eval0(e["r"], env)
        if mcall(e) and e["m"] in ("or",) and len(e["a"]) == 1:
            return eval0(e["r"], env) or eval0(e["a"][0], env)
        if mcall(e) and e["m"] in ("and",) and len(e["a"]) == 1:
            return eval0(e["r"], env) and eval0(e["a"][0], env)
        if k == "call" and is_path(e["f"], "PrefixTree0") and len(e["a"]) == 1:
            return eval0(e["a"][0], env)
        if k == "un" and e["op"] == "!":
            return not eval0(e["e"], env)
        if k == "match" and kind(e["e"]) == "tuple":
            vals = [eval0(x, env) for x in e["e"]["e"]]
            for arm in e["arms"]:
                pats = arm["p"]["e"] if kind(arm["p"]) == "ptuple" else None
                if pats is None or len(pats) != len(vals):
                    raise ValueError("match arm")
                okarm = True
                for pv, v_ in zip(pats, vals):
                    ptxt = pv.get("p", "") if kind(pv) in ("ptstruct", "ppath") else ("_" if kind(pv) == "pwild" else (pv.get("n") if kind(pv) == "pid" else "?"))
                    if ptxt == "Some" and not v_:
                        okarm = False
                    if ptxt == "None" and v_:
                        okarm = False
                    if ptxt not in ("Some", "None", "_"):
                        raise ValueError("pattern %s" % ptxt)
                if okarm:
                    b_ = arm["b"]
                    return eval0(b_, env)
            raise ValueError("no arm")
        if k == "block" and len(e["s"]) == 1 and stmt_expr(e["s"][0]) is not None:
            return eval0(stmt_expr(e["s"][0]), env)
        raise ValueError("expression %s" % txt)
    for name, ref in (("union", lambda a, b: a or b), ("difference", lambda a, b: a and not b), ("contains", lambda a, b: a), ("is_empty", lambda a, b: not a)):
        fn = methods.get(name, {}).get(0)
        if fn is None:
            raise AnchorError("PrefixTree0::%s not found" % name)
        where = "%s:%s PrefixTree0::%s" % (loc, fn["ln"], name)
        e = single_expr(fn)
        try:
            if e is None:
                raise ValueError("body is not a single expression")
            bad = [(a, b) for a in (False, True) for b in (False, True) if eval0(e, {"self": a, "other": b}) != ref(a, b)]
        except (ValueError, KeyError) as ex:
            res.bad("S-LEAF:PrefixTree0:%s:not-evaluable" % name, where, "PrefixTree0::%s: %s" % (name, ex))
            continue
        if bad:
            res.bad("S-LEAF:PrefixTree0:%s" % name, where, "PrefixTree0::%s is wrong for (self present, other present) = %s" % (name, bad))
        else:
            res.ok()
    # insert / remove / clear of arity 0: assign Some(()) / None and report the previous state
    for name, newval, report in (("insert", "Some(())", "is_none"), ("remove", "None", "is_some"), ("clear", "None", None)):
        fn = methods.get(name, {}).get(0)
        if fn is None:
            raise AnchorError("PrefixTree0::%s not found" % name)
        where = "%s:%s PrefixTree0::%s" % (loc, fn["ln"], name)
        assigns = [x for x in walk(fn["b"]) if kind(x) == "assign" and expr_str(x["lhs"]) == "self.0"]
        okv = len(assigns) == 1 and expr_str(assigns[0]["rhs"]) == newval
        if report:
            lets = [x for x in fn["b"]["s"] if kind(x) == "let" and x["e"] is not None and expr_str(x["e"]) == "self.0.%s()" % report]
            last = stmt_expr(fn["b"]["s"][-1]) if fn["b"]["s"] else None
            okv = okv and len(lets) == 1 and kind(lets[0]["p"]) == "pid" and last is not None and expr_str(last) == lets[0]["p"]["n"] \
                and lets[0]["ln"] < assigns[0]["ln"]
        if okv:
            res.ok()
        else:
            res.bad("S-LEAF:PrefixTree0:%s" % name, where, "PrefixTree0::%s does not set the tree to %s%s" % (name, newval, " and report the previous state" if report else ""))
    res.sample({"arity1": ["insert", "contains", "remove", "is_empty", "clear", "union", "difference"], "arity0": ["union", "difference", "contains", "is_empty", "insert", "remove", "clear"]})
    return res


def _numbered(n):
    """(base, number) if the node is a numbered column/map variable, possibly wrapped: `el3`, `map2.clone()`, `&el1`, `Some(map1)`."""
    for _ in range(4):
        k = kind(n)
        if k == "mcall" and n["m"] in ("clone", "into", "as_ref") and not n["a"]:
            n = n["r"]
        elif k == "ref":
            n = n["e"]
        elif k == "call" and is_path(n["f"], "Some") and len(n["a"]) == 1:
            n = n["a"][0]
        else:
            break
    name = None
    if kind(n) == "path":
        name = n["p"]
    elif kind(n) == "pid":
        name = n["n"]
    elif kind(n) == "param" and kind(n["p"]) == "pid":
        name = n["p"]["n"]
    if name:
        m = re.match(r"^([a-z_]+?)(\d+)$", name)
        if m:
            return m.group(1), int(m.group(2))
    return None


def _runs_out_of_order(node):
    """Lists (call arguments, array/tuple elements, patterns, parameters) in which numbered variables of one family do not
    appear in ascending consecutive order. The sibling normal form abstracts the numbers away, so their order is checked here."""
    bad = []
    for x in walk(node):
        for key in ("a", "e", "params"):
            lst = x.get(key)
            if not isinstance(lst, list) or len(lst) < 2:
                continue
            prev = None
            for it in lst:
                cur = _numbered(it) if isinstance(it, dict) else None
                if prev and cur and prev[0] == cur[0] and cur[1] != prev[1] + 1:
                    bad.append((x.get("ln"), "%s%d after %s%d" % (cur[0], cur[1], prev[0], prev[1])))
                prev = cur
    return bad


def _pattern_order_violations(node):
    """Closures that destructure a row (`|[x, y, z]|`, `|(a, b)|`) and build an array or tuple from its variables must keep
    them in the order of the pattern: the sibling normal form abstracts single-letter names, so a swapped pair is checked here.
    Returns [(line, text)]."""
    bad = []
    for cl in walk(node):
        if kind(cl) != "closure":
            continue
        for prm in cl.get("params", []):
            if kind(prm) not in ("pslice", "ptuple"):
                continue
            names = [e["n"] for e in prm["e"] if kind(e) == "pid"]
            if len(names) < 2 or len(names) != len(prm["e"]):
                continue
            pos = {n: i for i, n in enumerate(names)}
            for x in walk(cl["b"]):
                if kind(x) in ("array", "tuple") and isinstance(x.get("e"), list):
                    used = [e["p"] for e in x["e"] if kind(e) == "path" and e["p"] in pos]
                    if len(used) < 2:
                        continue
                    reordered = [pos[u] for u in used] != sorted(pos[u] for u in used)
                    duplicated = len(set(used)) != len(used)
                    # a row rebuilt from the pattern (plus at most one outer column) must contain every column of the pattern
                    incomplete = len(x["e"]) - len(used) <= 1 and set(used) != set(names)
                    if reordered or duplicated or incomplete:
                        bad.append((x.get("ln"), "[%s] built from the pattern [%s]" % (", ".join(used), ", ".join(names))))
    return bad


def rule_sib(trees):
    """S-SIB: PrefixTree2..9 are the same implementation."""
    res = RuleResult("S-SIB")
    methods = _prefix_tree_methods(trees)
    for name, by_n in sorted(methods.items()):
        for n, fn in sorted(by_n.items()):
            bad = _pattern_order_violations(fn["b"])
            if bad:
                res.bad("S-SIB:%s:pattern-order" % name, "eqlog-runtime/src/prefix_tree.rs:%s PrefixTree%d::%s" % (bad[0][0], n, name),
                        "PrefixTree%d::%s reorders the columns of a row: %s" % (n, name, bad[0][1]))
            else:
                res.ok()
    for name, by_n in sorted(methods.items()):
        for n, fn in sorted(by_n.items()):
            bad = _runs_out_of_order({"params": fn["params"], "b": fn["b"]})
            if bad:
                res.bad("S-SIB:%s:numbered-run-out-of-order" % name, "eqlog-runtime/src/prefix_tree.rs:%s PrefixTree%d::%s" % (bad[0][0], n, name),
                        "PrefixTree%d::%s lists column/map variables out of order: %s" % (n, name, bad[0][1]))
            else:
                res.ok()
    for name, by_n in sorted(methods.items()):
        arities = [n for n in by_n if n >= 2]
        if not arities:
            continue
        missing = [n for n in range(2, 10) if n not in by_n]
        if missing:
            res.bad("S-SIB:%s:missing-arity" % name, "eqlog-runtime/src/prefix_tree.rs", "method %s is missing for arities %s" % (name, missing))
        ref_n = 3 if 3 in by_n else arities[0]
        ref = json.dumps(_norm_tree(_alpha({"params": by_n[ref_n]["params"], "ret": by_n[ref_n]["ret"], "b": by_n[ref_n]["b"], "vis": by_n[ref_n]["vis"]})), sort_keys=True)
        for n in sorted(arities):
            got = json.dumps(_norm_tree(_alpha({"params": by_n[n]["params"], "ret": by_n[n]["ret"], "b": by_n[n]["b"], "vis": by_n[n]["vis"]})), sort_keys=True)
            if got == ref:
                res.ok()
            else:
                res.bad("S-SIB:%s:arity-differs" % name, "eqlog-runtime/src/prefix_tree.rs:%s PrefixTree%d::%s" % (by_n[n]["ln"], n, name),
                        "PrefixTree%d::%s differs structurally from PrefixTree%d::%s" % (n, name, ref_n, name))
        res.sample({"method": name, "arities": sorted(by_n)})
    return res


def rule_prune(trees):
    """S-PRUNE: no key maps to an empty subtree (so is_empty() == `no tuple`)."""
    res = RuleResult("S-PRUNE")
    methods = _prefix_tree_methods(trees)
    loc = "eqlog-runtime/src/prefix_tree.rs"

    def has_prune(fn):
        """an `if X.is_empty() { ..E.remove().. }` somewhere in fn"""
        for x in walk(fn["b"]):
            if kind(x) == "if":
                if any(mcall(y, "is_empty") for y in walk(x["c"])) and any(mcall(y, "remove") and not y["a"] for y in walk(x["t"])):
                    return True
        return False

    def guards_empty_arg(fn, arg):
        """the function returns early when `arg` is empty, or only stores it under a non-emptiness test"""
        for x in walk(fn["b"]):
            if kind(x) == "if":
                ctext = expr_str(x["c"])
                if (arg + ".is_empty()") in ctext or (arg + ".0.is_none()") in ctext:
                    if any(kind(y) == "return" for y in walk(x["t"])) or ctext.startswith("!"):
                        return True
        return False

    for name, need in (("remove", "prune"), ("remove_restriction", "prune"), ("insert_restriction", "guard"), ("mapped", "delegates"), ("difference", "callback")):
        by_n = methods.get(name, {})
        for n in range(1, 10):
            fn = by_n.get(n)
            if fn is None:
                if n >= 2:
                    res.bad("S-PRUNE:%s:missing" % name, loc, "PrefixTree%d::%s not found" % (n, name))
                continue
            where = "%s:%s PrefixTree%d::%s" % (loc, fn["ln"], n, name)
            if need == "prune":
                if n == 1:
                    # arity 1 has no subtrees: removing a (possibly empty) PrefixTree0 must do nothing when it is empty
                    if name == "remove_restriction":
                        ps = [p["p"]["n"] for p in fn["params"] if kind(p) == "param" and kind(p["p"]) == "pid"]
                        if guards_empty_arg(fn, ps[-1] if ps else "restriction"):
                            res.ok()
                        else:
                            res.bad("S-PRUNE:remove_restriction:removes-for-empty", where, "PrefixTree1::remove_restriction removes the element even when the restriction to remove is empty")
                    continue
                if has_prune(fn):
                    res.ok()
                else:
                    res.bad("S-PRUNE:%s:no-prune" % name, where, "PrefixTree%d::%s can shrink a subtree to empty without removing its entry" % (n, name))
            elif need == "guard":
                ps = [p["p"]["n"] for p in fn["params"] if kind(p) == "param" and kind(p["p"]) == "pid"]
                arg = ps[-1] if ps else "restriction"
                if guards_empty_arg(fn, arg):
                    res.ok()
                else:
                    res.bad("S-PRUNE:%s:stores-empty" % name, where, "PrefixTree%d::%s stores the caller's subtree without checking that it is non-empty" % (n, name))
            elif need == "delegates":
                if n == 1:
                    continue
                stores = [x for x in walk(fn["b"]) if mcall(x) and x["m"] in ("insert_restriction",)]
                raw = [x for x in walk(fn["b"]) if mcall(x) and x["m"] in ("insert", "or_insert", "or_insert_with") and "map" in expr_str(x["r"])]
                unites = any(mcall(x, "union") for x in walk(fn["b"])) and any(mcall(x, "is_empty") for x in walk(fn["b"]))
                if (stores and not raw) or (raw and unites):
                    res.ok()
                else:
                    res.bad("S-PRUNE:mapped:stores-directly", where,
                            "PrefixTree%d::mapped stores mapped subtrees directly: two keys with the same image overwrite each other (no union), or empty subtrees are kept" % n)
            elif need == "callback":
                if n <= 1:
                    continue
                cls = [x for x in walk(fn["b"]) if kind(x) == "closure"]
                ok = False
                for c in cls:
                    for x in walk(c["b"]):
                        if kind(x) == "if" and any(mcall(y, "is_empty") for y in walk(x["c"])) and x["t"]["s"] \
                                and any(is_path(y, "None") for y in walk(x["t"])):
                            ok = True
                if ok:
                    res.ok()
                else:
                    res.bad("S-PRUNE:difference:keeps-empty", where, "PrefixTree%d::difference keeps keys whose subtree became empty" % n)
    res.sample({"methods": ["remove", "remove_restriction", "insert_restriction", "mapped", "difference"], "arities": "1..9"})
    return res


# ---------------------------------------------------------------------------------------------------------------------
# S-MIRROR: left/right symmetry of the weight-balanced tree

_MIRROR_SWAP = {"left": "right", "right": "left", "l": "r", "r": "l", "Less": "Greater", "Greater": "Less"}
_SPATIAL = re.compile(r"(?<![A-Za-z0-9])(left|right)(?![A-Za-z0-9])")


def _mirror_ident(s):
    return re.sub(r"[A-Za-z0-9]+", lambda m: _MIRROR_SWAP.get(m.group(0), m.group(0)), s)


def _mirror_canon(n, mirror, sig=None, flips=None):
    """Canonical form of a syntax tree, optionally reflected: identifier components left/right, l/r, Less/Greater are exchanged.
    Positions: in a call of a function of the file whose signature has two side-named parameters (`join(left, key, value, right)`)
    the arguments in those positions are exchanged (`sig`: function name -> positions, from the signatures, so the names of the
    caller's locals do not matter); in other argument lists, tuples and tuple patterns the components that name a side
    (`new_left`, `r_left`, `x.right`, ..) exchange their positions among themselves (`(new_left, found, new_right)` reversed).
    A tuple or tuple pattern with at least two components that name no side (`(lo, found, hi)`) cannot be reflected by name:
    it is numbered in `flips` and reversed iff its bit in flips["mask"] is set; the caller tries the masks.
    Struct literals and struct patterns are unordered; string literals and macro arguments are ignored."""
    if isinstance(n, list):
        return [_mirror_canon(x, mirror, sig, flips) for x in n]
    if not isinstance(n, dict):
        if isinstance(n, str) and mirror:
            return _mirror_ident(n)
        return n
    k = n.get("k")
    if k == "lit":
        v = n.get("v", "")
        return {"k": "lit", "v": "STR" if v.startswith(("\"", "r\"", "r#")) else v, "_ln": n.get("ln")}
    if k == "macro":
        return {"k": "macro", "p": n.get("p"), "_ln": n.get("ln")}
    out = {}
    for key, v in n.items():
        if key == "ln":
            out["_ln"] = v
        elif key == "end":
            continue
        elif key == "k":
            out["k"] = v
        else:
            out[key] = _mirror_canon(v, mirror, sig, flips)
    if mirror:
        lst_key = {"tuple": "e", "ptuple": "e", "call": "a", "mcall": "a"}.get(k)
        if lst_key and isinstance(n.get(lst_key), list):
            orig = n[lst_key]
            pos = [i for i, x in enumerate(orig) if _SPATIAL.search(json.dumps(strip_ln(x)))]
            callee = n["f"]["p"].split("::")[-1] if k == "call" and kind(n.get("f")) == "path" and isinstance(n["f"].get("p"), str) else None
            if callee is not None and sig and len(sig.get(callee, ())) >= 2 and max(sig[callee]) < len(orig):
                pos = sig[callee]
            elif k in ("tuple", "ptuple") and len(pos) < 2 and len(orig) - len(pos) >= 2 and flips is not None:
                bit = flips["count"]
                flips["count"] += 1
                pos = list(range(len(orig))) if (flips["mask"] >> bit) & 1 else []
            if len(pos) >= 2:
                vals = [out[lst_key][i] for i in pos]
                for i, v in zip(pos, reversed(vals)):
                    out[lst_key][i] = v
    if k in ("struct", "pstruct") and isinstance(out.get("f"), list):
        out["f"] = sorted(out["f"], key=lambda x: json.dumps(_drop_ln(x), sort_keys=True))
    return out


def _drop_ln(n):
    if isinstance(n, list):
        return [_drop_ln(x) for x in n]
    if isinstance(n, dict):
        return {k: _drop_ln(v) for k, v in n.items() if not k.startswith("_")}
    return n


def _mirror_alpha(n):
    """Names bound inside the compared region (identifier patterns) are replaced by the number of their first binding, so a
    local renamed on one side only is not a deviation. Runs of consecutive, mutually independent, call-free `let <name> = <expr>`
    are unordered: a run is sorted by its expressions *after* the names bound so far have been replaced (so the order does not
    depend on how the locals are called), and its names are numbered in that order."""
    names = {}

    def rename(x):
        if isinstance(x, dict):
            out = {}
            for key, v in x.items():
                if key == "n" and x.get("k") == "pid" and v in names:
                    out[key], out["_o"] = names[v], v
                elif key == "p" and x.get("k") == "path" and v in names:
                    out[key], out["_o"] = names[v], v
                else:
                    out[key] = rename(v)
            return out
        if isinstance(x, list):
            return [rename(v) for v in x]
        return x

    def pure_let(st):
        return kind(st) == "let" and kind(st.get("p")) == "pid" and st.get("e") is not None \
            and not any(kind(y) in ("call", "mcall", "macro", "closure", "assign", "try") for y in walk(st["e"]))

    def bind(x):
        """numbers the names in traversal order; returns x with the unordered runs in canonical order"""
        if isinstance(x, list):
            return [bind(v) for v in x]
        if not isinstance(x, dict):
            return x
        if x.get("k") == "pid" and isinstance(x.get("n"), str):
            names.setdefault(x["n"], "$%d" % len(names))
        if x.get("k") == "block" and isinstance(x.get("s"), list):
            stmts, i, res_s = x["s"], 0, []
            while i < len(stmts):
                j = i
                while j < len(stmts) and pure_let(stmts[j]):
                    j += 1
                run_ = stmts[i:j]
                bound = {st["p"]["n"] for st in run_}
                if len(run_) >= 2 and not any(kind(y) == "path" and y.get("p") in bound for st in run_ for y in walk(st["e"])):
                    run_ = sorted(run_, key=lambda st: json.dumps(_drop_ln(rename(st["e"])), sort_keys=True))
                if j == i:
                    run_, j = [stmts[i]], i + 1
                res_s.extend(bind(st) for st in run_)
                i = j
            out = {key: (res_s if key == "s" else bind(v)) for key, v in x.items()}
            return out
        return {key: bind(v) for key, v in x.items()}
    return rename(bind(n))


def _mirror_diff(a, b, ln=None):
    """First difference between two canonical trees: (line on the b side, description) or None."""
    if isinstance(a, dict) and isinstance(b, dict):
        ln = b.get("_ln", ln)
        if a.get("k") != b.get("k"):
            return ln, "`%s` node where the reflection of its twin has `%s`" % (b.get("k"), a.get("k"))
        for key in sorted(set(a) | set(b)):
            if key.startswith("_"):
                continue
            if key not in a or key not in b:
                return ln, "`%s` present on one side only" % key
            if key in ("n", "p") and a[key] != b[key] and ("_o" in a or "_o" in b):
                # locals are compared by the number of their first binding; quote the names as written
                return ln, "`%s` where the reflection of the twin has `%s`" % (b.get("_o", b[key]), a.get("_o", a[key]))
            d = _mirror_diff(a[key], b[key], ln)
            if d:
                return d
        return None
    if isinstance(a, list) and isinstance(b, list):
        for x, y in zip(a, b):
            d = _mirror_diff(x, y, ln)
            if d:
                return d
        if len(a) != len(b):
            return ln, "%d elements where the reflection of the twin has %d" % (len(b), len(a))
        return None
    if a != b:
        return ln, "`%s` where the reflection of the twin has `%s`" % (b, a)
    return None


def rule_mirror(trees):
    """S-MIRROR: the weight-balanced tree is symmetric under exchanging left and right. Each pair below is two hand-written
    copies of one piece of code; the reflection of the first (see _mirror_canon) must be the second, syntactically:
      rotate_left / rotate_right (whole bodies); the right-heavy and the left-heavy branch of `balance` and of `join`
      (condition and block); the Less and the Greater arm of the key comparison in insert_simple, remove_existing_node, split,
      get and get_mut.
    A one-sided edit (a size update, a rebalancing call, a threshold, a child, the order of the joined parts dropped or changed
    on one side only) is reported with the line of the deviating twin."""
    res = RuleResult("S-MIRROR")
    t = trees["eqlog-runtime/src/wbtree/map.rs"]
    if "error" in t:
        raise AnchorError("map.rs does not parse")
    loc = "eqlog-runtime/src/wbtree/map.rs"
    fns = {}
    for qn, fn, imp in find_fns(t["items"]):
        if imp is not None and imp["trait"] is None and any(x in nospace(imp["ty"]) for x in ("Node<", "WBTreeMap<")):
            fns.setdefault(fn["n"], (qn, fn))
    pairs = []          # (function, what, node a, node b, line)

    def need(name):
        if name not in fns:
            raise AnchorError("S-MIRROR: function %s of the ordered map not found" % name)
        return fns[name]
    ql, fl = need("rotate_left")
    qr, fr = need("rotate_right")
    pairs.append(("rotate", "rotate_left/rotate_right", fl["b"], fr["b"], fr["ln"]))
    for name in ("balance", "join"):
        qn, fn = need(name)
        chains = [x for x in walk(fn["b"]) if kind(x) == "if" and kind(x.get("e")) == "if" and kind(x["c"]) == "bin" and kind(x["e"]["c"]) == "bin"
                  and _SPATIAL.search(json.dumps(strip_ln(x["c"]))) and _SPATIAL.search(json.dumps(strip_ln(x["e"]["c"])))]
        if len(chains) != 1:
            raise AnchorError("S-MIRROR: %s has %d `if <one side heavy> .. else if <other side heavy>` chains, expected 1" % (name, len(chains)))
        c = chains[0]
        pairs.append((name, "heavy-side condition", c["c"], c["e"]["c"], c["e"]["ln"]))
        pairs.append((name, "heavy-side branch", c["t"], c["e"]["t"], c["e"]["ln"]))
    for name in ("insert_simple", "remove_existing_node", "split", "get", "get_mut"):
        qn, fn = need(name)
        cmps = [x for x in walk(fn["b"]) if kind(x) == "match" and mcall(x["e"], "cmp")]
        if len(cmps) != 1:
            raise AnchorError("S-MIRROR: %s has %d `match <key>.cmp(..)`, expected 1" % (name, len(cmps)))
        arms = {}
        for arm in cmps[0]["arms"]:
            pat = arm["p"].get("p", "") if kind(arm["p"]) == "ppath" else ""
            arms[pat.split("::")[-1]] = arm
        if "Less" not in arms or "Greater" not in arms:
            raise AnchorError("S-MIRROR: the key comparison of %s has no Less/Greater arms" % name)
        pairs.append((name, "Less/Greater arm", arms["Less"]["b"], arms["Greater"]["b"], arms["Greater"]["ln"]))
    # positions of side-named parameters, from the signatures of the file's own functions
    sig = {}
    for fname, (qn, fn) in fns.items():
        ps = [i for i, prm in enumerate(fn.get("params", [])) if _SPATIAL.search(json.dumps(strip_ln(prm.get("p", prm)) if isinstance(prm, dict) else prm))]
        if len(ps) >= 2:
            sig[fname] = ps
    if "join" not in sig:
        raise AnchorError("S-MIRROR: join has no two side-named parameters")
    for name, what, a, b, ln in pairs:
        cb = _mirror_alpha(_mirror_canon(b, False))
        flips = {"mask": 0, "count": 0}
        d = _mirror_diff(_mirror_alpha(_mirror_canon(a, True, sig, flips)), cb, ln)
        nflip = flips["count"]
        if d is not None and 0 < nflip <= 10:
            # tuples whose components name no side: a reflection exists if some choice of reversed ones matches
            for mask in range(1, 1 << nflip):
                if _mirror_diff(_mirror_alpha(_mirror_canon(a, True, sig, {"mask": mask, "count": 0})), cb, ln) is None:
                    d = None
                    break
        if d is None:
            res.ok()
        else:
            res.bad("S-MIRROR:%s:%s" % (name, what.split()[0].split("/")[0].lower()), "%s:%s %s" % (loc, d[0] or ln, name),
                    "%s of %s is not the left/right reflection of its twin: %s" % (what, name, d[1]))
    # the reflection is not the identity: a rule that compares a thing with itself passes forever
    ca, cb = _mirror_canon(fl["b"], False), _mirror_canon(fr["b"], False)
    if _mirror_diff(ca, cb) is None:
        raise AnchorError("S-MIRROR: rotate_left and rotate_right are identical without reflection")
    res.ok()
    res.sample({"pairs": ["%s: %s" % (p[0], p[1]) for p in pairs]})
    return res
