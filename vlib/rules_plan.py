"""T-PLAN (each rule function implements the flat rule printed above it) and T-SEMI (semi-naive cover)."""
import itertools
import re

from .core import RuleResult
from .emodel import AnchorError, norm
from .tree import array_names, expr_str, kind, is_path, mcall, pat_names, base_field, stmt_expr, walk, nospace


class SetVal:
    """Abstract value of a set variable: which env index fields it may denote and how it was restricted."""

    def __init__(self, fields, cols, gid):
        self.fields = fields    # frozenset of env field names
        self.cols = cols        # tuple of ('get'|'iter', var)
        self.gid = gid          # component id (atoms merge components when chained/guarded together)


class Component:
    def __init__(self):
        self.fields = set()
        self.cols = None        # final column list
        self.closed = False     # consumed to full arity and on the path to the pushes
        self.guarded = False


class PlanError(Exception):
    def __init__(self, key, msg, node=None):
        Exception.__init__(self, msg)
        self.key, self.msg, self.node = key, msg, node


def _unwrap_restrict(e):
    """`S.get(v).unwrap_or_else(|| PrefixTreeN::empty())` or LazyCell::new(|| { that }) -> (S name, v, lazy) else None"""
    lazy = False
    if kind(e) == "call" and kind(e["f"]) == "path" and e["f"]["p"] == "LazyCell::new" and len(e["a"]) == 1 and kind(e["a"][0]) == "closure":
        lazy = True
        b = e["a"][0]["b"]
        if kind(b) == "block":
            if len(b["s"]) != 1 or stmt_expr(b["s"][0]) is None:
                return None
            b = stmt_expr(b["s"][0])
        e = b
    if mcall(e, "unwrap_or_else") and mcall(e["r"], "get") and kind(e["r"]["r"]) == "path" and len(e["r"]["a"]) == 1 and kind(e["r"]["a"][0]) == "path":
        # the default must be an empty tree
        d = e["a"][0] if e["a"] else None
        if kind(d) == "closure":
            db = d["b"]
            if kind(db) == "block" and len(db["s"]) == 1:
                db = stmt_expr(db["s"][0])
            if not (kind(db) == "call" and kind(db["f"]) == "path" and re.match(r"^PrefixTree\d+::empty$", db["f"]["p"])):
                return None
        else:
            return None
        return e["r"]["r"]["p"], e["r"]["a"][0]["p"], lazy
    return None


def _iter_sources(e):
    """`A.iter_restrictions().chain(B.iter_restrictions())...` -> [A, B, ..] else None"""
    out = []
    while mcall(e, "chain"):
        if len(e["a"]) != 1:
            return None
        a = e["a"][0]
        if not (mcall(a, "iter_restrictions") and kind(a["r"]) == "path" and not a["a"]):
            return None
        out.append(a["r"]["p"])
        e = e["r"]
    if not (mcall(e, "iter_restrictions") and kind(e["r"]) == "path" and not e["a"]):
        return None
    out.append(e["r"]["p"])
    out.reverse()
    return out


def _guard_sets(e):
    """`false || !A.is_empty() || !B.is_empty()` -> [A, B] else None"""
    terms = []

    def flat(x):
        if kind(x) == "bin" and x["op"] == "||":
            flat(x["lhs"])
            flat(x["rhs"])
        else:
            terms.append(x)
    flat(e)
    out = []
    for t in terms:
        if kind(t) == "lit" and t["v"] == "false":
            continue
        if kind(t) == "un" and t["op"] == "!" and mcall(t["e"], "is_empty") and kind(t["e"]["r"]) == "path":
            out.append(t["e"]["r"]["p"])
        else:
            return None
    return out


class RoutinePlan:
    """Dataflow over one routine body."""

    def __init__(self, routine, env_fields, envname="env"):
        self.r = routine
        self.env_fields = env_fields
        self.envname = envname
        self.sets = {}
        self.comps = {}          # gid -> Component
        self.parent = {}         # union-find over gids
        self.bound = []          # element variables bound so far (in nesting order)
        self.pushes = []         # (vector, args, node, depth)
        self.controls = 0
        self.depth = 0
        self.max_depth = 0
        self.next_gid = 0

    def find(self, g):
        while self.parent.get(g, g) != g:
            g = self.parent[g]
        return g

    def union(self, gs):
        gs = [self.find(g) for g in gs]
        root = gs[0]
        for g in gs[1:]:
            if g != root:
                self.parent[g] = root
                self.comps[root].fields |= self.comps[g].fields
        return root

    def run(self):
        fn = self.r.fn
        ps = [p for p in fn["params"] if kind(p) == "param"]
        if len(ps) != 1 or kind(ps[0]["p"]) != "pid":
            raise PlanError("T-PLAN:routine:signature", "routine does not take a single env parameter", fn)
        self.envname = ps[0]["p"]["n"]
        self.block(fn["b"])

    def block(self, b):
        stmts = b["s"]
        for i, s in enumerate(stmts):
            k = kind(s)
            if k == "let":
                self.let(s)
                continue
            e = stmt_expr(s)
            if kind(e) == "for":
                if i != len(stmts) - 1:
                    raise PlanError("T-PLAN:routine:shape", "statements follow a loop in the same block (not a linear nest)", s)
                self.loop(e)
            elif kind(e) == "if":
                if i != len(stmts) - 1:
                    raise PlanError("T-PLAN:routine:shape", "statements follow a guard in the same block (not a linear nest)", s)
                self.guard(e)
            elif mcall(e, "push"):
                self.push(e)
            else:
                raise PlanError("T-PLAN:routine:stmt", "statement not recognised: %s" % (expr_str(e) if e else k), s)

    def let(self, s):
        pn = s["p"]
        if kind(pn) != "pid":
            raise PlanError("T-PLAN:routine:let", "let pattern not an identifier", s)
        name = pn["n"]
        e = s["e"]
        f = base_field(e, self.envname)
        if f is not None:
            if f not in self.env_fields:
                raise PlanError("T-PLAN:routine:env-field", "routine reads env.%s which the env struct lacks" % f, s)
            g = self.next_gid
            self.next_gid += 1
            c = Component()
            c.fields = {f}
            self.comps[g] = c
            self.sets[name] = SetVal(frozenset([f]), (), g)
            return
        r = _unwrap_restrict(e)
        if r is not None:
            src, var, _lazy = r
            sv = self.sets.get(src)
            if sv is None:
                raise PlanError("T-PLAN:routine:unknown-set", "restriction of unknown set %s" % src, s)
            if var not in self.bound:
                raise PlanError("T-PLAN:restrict:unbound-var", "restriction by %s which is not bound at this point" % var, s)
            self.sets[name] = SetVal(sv.fields, sv.cols + (("get", var),), sv.gid)
            return
        raise PlanError("T-PLAN:routine:let", "let initialiser not recognised: %s" % expr_str(e), s)

    def loop(self, e):
        srcs = _iter_sources(e["e"])
        if srcs is None:
            raise PlanError("T-PLAN:loop:source", "loop source not a chain of iter_restrictions(): %s" % expr_str(e["e"]), e)
        names = pat_names(e["p"])
        if names is None or len(names) != 2:
            raise PlanError("T-PLAN:loop:pattern", "loop pattern not (var, set)", e)
        var, setname = names
        svs = []
        for sname in srcs:
            sv = self.sets.get(sname)
            if sv is None:
                raise PlanError("T-PLAN:routine:unknown-set", "loop over unknown set %s" % sname, e)
            svs.append(sv)
        cols0 = svs[0].cols
        for sv in svs[1:]:
            if sv.cols != cols0:
                raise PlanError("T-PLAN:loop:chain-mismatch", "chained sets were restricted differently: %s vs %s" % (cols0, sv.cols), e)
        if len({f for sv in svs for f in sv.fields}) != sum(len(sv.fields) for sv in svs):
            raise PlanError("T-PLAN:loop:chain-duplicate", "the same index is chained twice", e)
        if var in self.bound:
            raise PlanError("T-PLAN:loop:rebinds", "loop binds %s which is already bound (column left unconstrained)" % var, e)
        g = self.union([sv.gid for sv in svs])
        fields = frozenset(f for sv in svs for f in sv.fields)
        self.bound.append(var)
        self.sets[setname] = SetVal(fields, cols0 + (("iter", var),), g)
        self.comps[g].cols = cols0 + (("iter", var),)
        self.comps[g].last_fields = fields
        self.controls += 1
        self.depth += 1
        self.block(e["b"])
        self.depth -= 1

    def guard(self, e):
        if e["e"] is not None:
            raise PlanError("T-PLAN:guard:else", "guard with else branch", e)
        gs = _guard_sets(e["c"])
        if gs is None or not gs:
            raise PlanError("T-PLAN:guard:cond", "guard not a disjunction of non-emptiness tests: %s" % expr_str(e["c"]), e)
        svs = []
        for sname in gs:
            sv = self.sets.get(sname)
            if sv is None:
                raise PlanError("T-PLAN:routine:unknown-set", "guard on unknown set %s" % sname, e)
            svs.append(sv)
        cols0 = svs[0].cols
        for sv in svs[1:]:
            if sv.cols != cols0:
                raise PlanError("T-PLAN:guard:mismatch", "guarded sets were restricted differently", e)
        g = self.union([sv.gid for sv in svs])
        c = self.comps[g]
        c.cols = cols0
        c.last_fields = frozenset(f for sv in svs for f in sv.fields)
        c.guarded = True
        self.controls += 1
        self.depth += 1
        self.block(e["t"])
        self.depth -= 1

    def push(self, e):
        vec = base_field(e["r"], self.envname)
        args = array_names(e["a"][0]) if len(e["a"]) == 1 else None
        if vec is None or args is None:
            raise PlanError("T-PLAN:push:shape", "push not of the form env.new_X.push([vars])", e)
        if vec not in self.env_fields:
            raise PlanError("T-PLAN:routine:env-field", "routine pushes to env.%s which the env struct lacks" % vec, e)
        for a in args:
            if a not in self.bound:
                raise PlanError("T-PLAN:push:unbound-var", "conclusion argument %s is not bound by the premise" % a, e)
        self.pushes.append((vec, args, e, self.depth))
        self.max_depth = max(self.max_depth, self.depth)

    def components(self):
        roots = {}
        for g in self.comps:
            r = self.find(g)
            roots[r] = self.comps[r]
        return list(roots.values())


def _match_atom(m, atom, comp, ages_exact=True):
    """Does component `comp` implement header atom `atom`? Returns None if yes, else a reason string. With ages_exact=False
    the ages read are not compared (the caller classifies an age difference itself: `_age_difference`)."""
    fields = []
    for fname in comp.fields:
        f = m.by_name.get(fname) or m.by_name.get(fname + "_all")
        if f is None:
            return "field %s unknown" % fname
        fields.append(f)
    rels = {(f.rel, f.is_typeset, f.eqs, f.order) for f in fields}
    if len(rels) != 1:
        return "fields %s differ in relation, diagonal or order" % sorted(comp.fields)
    rel, is_ts, eqs, order = next(iter(rels))
    if is_ts:
        tc = m.types[rel]
        if atom.rel != tc + "Set" or atom.diag is not None:
            return "relation differs"
    else:
        if norm(atom.rel) != norm(rel) or (atom.diag or None) != (eqs or None):
            return "relation/diagonal differs"
    ages = {f.age for f in fields}
    want = {"new": {"new"}, "old": {"old"}, "all": {"new", "old"}}[atom.age]
    if ages_exact and (ages != want or len(fields) != len(want)):
        return "ages read %s but atom is [%s]" % (sorted(f.name for f in fields), atom.age)
    if comp.cols is None or len(comp.cols) != len(order):
        return "columns consumed %s but index has %d columns" % (comp.cols, len(order))
    if len(atom.args) != len(order):
        return "atom has %d arguments, index %d columns" % (len(atom.args), len(order))
    # fields actually surviving to the end must be all of them (after a chain only the merged set continues)
    for j, (how, var) in enumerate(comp.cols):
        if atom.args[order[j]] != var:
            return "level %d of the index is column %d = %s but the code uses %s" % (j, order[j], atom.args[order[j]], var)
    if not (comp.guarded or comp.cols[-1][0] == "iter") and len(order) > 0:
        return "fully restricted set is never tested for inhabitedness"
    return None


def _age_difference(m, atom, comp):
    """'widened' if the component reads every age the atom names and more (a superset of the matches: the join and the model
    are the same, only `once` is lost), 'narrowed' otherwise (matches are lost)."""
    ages = set()
    for fname in comp.fields:
        f = m.by_name.get(fname) or m.by_name.get(fname + "_all")
        ages.add(f.age)
    want = {"new": {"new"}, "old": {"old"}, "all": {"new", "old"}}[atom.age]
    return "widened" if ages > want else "narrowed"


def rule_plan(m, modules):
    """modules: list of RuleModule."""
    res = RuleResult("T-PLAN")
    for mod in modules:
        env_fields = dict(mod.env_fields())
        used = set()
        # (iv) env struct fields exist in the model struct / ModelDelta with matching types
        for fname, ftype in env_fields.items():
            if ftype.startswith("&'amut"):
                n = m.delta.get(fname)
                if n is not None and ftype == "&'amutVec<[u32;%d]>" % n:
                    res.ok()
                else:
                    res.bad("T-ENV:env:out-field", mod.where, "env field %s: %s has no matching ModelDelta vector" % (fname, ftype))
            else:
                f = m.by_name.get(fname) or m.by_name.get(fname + "_all")
                if f is not None and ftype == "&'aPrefixTree%d" % f.n:
                    res.ok()
                else:
                    res.bad("T-ENV:env:in-field", mod.where, "env field %s: %s has no matching index field" % (fname, ftype))
        for rt in mod.routines:
            where = "%s:%d %s" % (m.path, rt.fn["ln"], rt.name)
            plan = RoutinePlan(rt, env_fields)
            try:
                plan.run()
            except PlanError as pe:
                res.bad(pe.key, "%s:%s %s" % (m.path, (pe.node or rt.fn).get("ln"), rt.name), "%s: %s" % (rt.name, pe.msg))
                continue
            comps = plan.components()
            for c in comps:
                used |= c.fields
            # (i)+(ii) atoms <-> components
            atoms = list(rt.atoms)
            unmatched = list(comps)
            reasons = []
            ok = True
            for a in atoms:
                hit = None
                why = []
                for c in unmatched:
                    r = _match_atom(m, a, c)
                    if r is None:
                        hit = c
                        break
                    why.append(r)
                if hit is None:
                    # the right index in the right column order, only the ages read differ from the atom's label
                    for c in unmatched:
                        if _match_atom(m, a, c, ages_exact=False) is None:
                            hit = c
                            break
                    if hit is not None:
                        ok = False
                        unmatched.remove(hit)
                        diff = _age_difference(m, a, hit)
                        res.bad("T-PLAN:atom:age-%s" % diff, where, "%s: premise atom `%s` is served from %s: %s" % (
                            rt.name, a.raw, sorted(hit.fields),
                            "more ages than its label (same matches found more than once)" if diff == "widened" else "not all ages of its label (matches are lost)"),
                            {"atom": a.raw})
                        continue
                if hit is None:
                    ok = False
                    res.bad("T-PLAN:atom:not-implemented", where, "%s: premise atom `%s` is not implemented by any index access (%s)"
                            % (rt.name, a.raw, "; ".join(sorted(set(why))[:3])), {"atom": a.raw})
                else:
                    unmatched.remove(hit)
                    res.ok()
                    res.count("atoms")
            for c in unmatched:
                ok = False
                res.bad("T-PLAN:atom:extra-access", where, "%s: index access %s matches no premise atom" % (rt.name, sorted(c.fields)))
            # all controls enclose the pushes: linear nest guarantees it iff pushes are at maximal depth == number of controls
            for vec, args, node, depth in plan.pushes:
                used.add(vec)
                if depth != plan.controls:
                    ok = False
                    res.bad("T-PLAN:push:not-innermost", where, "%s: push to %s at nesting depth %d of %d" % (rt.name, vec, depth, plan.controls))
            # (iii) pushes <-> conclusions
            want = []
            for c in rt.concls:
                if c.kind == "eq":
                    ts = [s for s, cam in m.types.items() if cam == c.target]
                    vec = "new_%s_equalities" % ts[0] if ts else None
                elif c.kind == "def":
                    rr = [r for r in m.rels if norm(r) == norm(c.target)]
                    vec = "new_%s_def" % rr[0] if rr else None
                else:
                    rr = [r for r in m.rels if norm(r) == norm(c.target)]
                    vec = "new_%s" % rr[0] if rr else None
                want.append((vec, tuple(c.args)))
            got = [(vec, tuple(args)) for vec, args, _n, _d in plan.pushes]
            if sorted(map(str, want)) == sorted(map(str, got)):
                res.ok(len(got))
                res.count("pushes", len(got))
            else:
                ok = False
                res.bad("T-PLAN:push:conclusion-mismatch", where, "%s: pushes %s but the flat rule concludes %s" % (rt.name, got, want))
            if ok:
                res.count("routines")
                res.sample({"routine": rt.name, "atoms": [a.raw for a in rt.atoms], "pushes": [list(g) for g in got]})
        # (iv) the env struct has exactly the fields used
        for fname in env_fields:
            if fname not in used:
                res.bad("T-PLAN:env:unused-field", mod.where, "env field %s of %s is used by no routine" % (fname, mod.name))
        # (v) exported function calls every routine exactly once with &mut env
        calls = []
        for s in mod.export["b"]["s"]:
            e = stmt_expr(s)
            if kind(e) == "call" and kind(e["f"]) == "path":
                calls.append(e["f"]["p"])
            else:
                res.bad("T-PLAN:export:stmt", mod.where, "unrecognised statement in exported function of %s" % mod.name)
        names = [rt.name for rt in mod.routines]
        if sorted(calls) == sorted(names) and len(set(names)) == len(names):
            res.ok()
        else:
            res.bad("T-PLAN:export:calls", mod.where, "exported function of %s calls %s, routines are %s" % (mod.name, calls, names))
    return res


# ---------------------------------------------------------------------------

def rule_semi(m, modules):
    """T-SEMI: for every family (same atoms up to age, same conclusions) each labelling new/old of the atoms
    is enumerated by exactly one member if some atom is new and by none if all are old."""
    res = RuleResult("T-SEMI")
    for mod in modules:
        fams = {}
        for rt in mod.routines:
            # a family is the set of sub-rules of one rule stage (`<rule>_<stage>_<k>`): two stages of a rule may be the same
            # flat rule (a statement after a branch whose blocks have equal premises) and are enumerated independently
            ms = re.match(r"^(.*_\d+)_\d+$", rt.rule_name or "")
            key = (ms.group(1) if ms else None, tuple(sorted((a.key() for a in rt.atoms))), tuple(sorted((c.rel, tuple(c.args)) for c in rt.concls)))
            fams.setdefault(key, []).append(rt)
        for key, members in fams.items():
            where = "%s mod %s family of %s" % (m.path, mod.name, members[0].rule_name)
            atoms0 = members[0].atoms
            n = len(atoms0)
            if n == 0:
                # documented exception: empty premise, one member, run every iteration
                if len(members) == 1:
                    res.ok()
                    res.count("empty_premise_families")
                else:
                    res.bad("T-SEMI:family:empty-premise-duplicated", where, "%d copies of a rule with empty premise" % len(members))
                continue
            is_functionality = mod.name.startswith("functionality_") and n == 2 and len(members) == 1
            # distinct atoms (identical atoms always match the same row)
            distinct = sorted(set(a.key() for a in atoms0))
            # per member: for each distinct atom the list of admitted ages of its occurrences
            def admits(rt, labelling):
                # labelling: dict atom key -> 'new'|'old'; every occurrence of the atom sees the same row
                for a in rt.atoms:
                    lab = labelling[a.key()]
                    if a.age != "all" and a.age != lab:
                        return False
                return True
            bad = False
            evaluated = 0
            for labs in itertools.product(("new", "old"), repeat=len(distinct)):
                labelling = dict(zip(distinct, labs))
                cnt = sum(1 for rt in members if admits(rt, labelling))
                evaluated += 1
                want = 0 if all(l == "old" for l in labs) else 1
                if is_functionality and cnt != want:
                    # covered up to the swap of the two atoms: f(a,r0)[x], f(a,r1)[y]  ==  f(a,r1)[x], f(a,r0)[y]
                    a0, a1 = atoms0
                    sw = {a0.key(): labelling[a1.key()], a1.key(): labelling[a0.key()]}
                    cnt2 = sum(1 for rt in members if admits(rt, sw))
                    if symmetric_functionality(members[0]) and (cnt + cnt2 >= 1) == (want == 1) and cnt <= 1 and cnt2 <= 1:
                        continue
                if cnt != want:
                    bad = True
                    res.bad("T-SEMI:family:cover:%s" % ("all-old-enumerated" if want == 0 else ("missed" if cnt == 0 else "overlap")), where,
                            "matches labelled %s are enumerated by %d sub-rules (expected %d); members: %s"
                            % (dict((k[0], v) for k, v in labelling.items()), cnt, want, [[a.age for a in rt.atoms] for rt in members]),
                            {"labelling": list(labs), "members": [[a.raw for a in rt.atoms] for rt in members]})
                    break
            res.count("labellings", evaluated)
            if not bad:
                res.ok()
                res.count("families")
                res.sample({"family": members[0].rule_name, "members": [[a.age for a in rt.atoms] for rt in members]})
    return res


def symmetric_functionality(rt):
    """Premise f(args, r0), f(args, r1); conclusion T==T(r0, r1): symmetric under swapping the two atoms."""
    if len(rt.atoms) != 2 or len(rt.concls) != 1 or rt.concls[0].kind != "eq":
        return False
    a0, a1 = rt.atoms
    if norm(a0.rel) != norm(a1.rel) or a0.diag or a1.diag or len(a0.args) != len(a1.args) or not a0.args:
        return False
    if a0.args[:-1] != a1.args[:-1]:
        return False
    return sorted(rt.concls[0].args) == sorted([a0.args[-1], a1.args[-1]])
