"""Which rules decide which property, and the runner groups that produce the rule results."""
from . import rules_struct, rules_plan, rules_loop, rules_api, rules_mor

# ---------------------------------------------------------------------------
# runner groups: name -> function(ctx) -> list[RuleResult]; memoised per run


def g_struct(ctx):
    def f(p):
        m = p.model
        return [rules_struct.rule_fam(m), rules_struct.rule_ins(m), rules_struct.rule_move(m), rules_struct.rule_dirty(m),
                rules_struct.rule_canon(m), rules_struct.rule_delta(m), rules_struct.rule_func(m)]
    return ctx.per_model(["T-FAM", "T-INS", "T-MOVE", "T-DIRTY", "T-CANON", "T-DELTA", "T-FUNC"], f)


def g_plan(ctx):
    def f(p):
        mods = list(p.model.rule_mods.values())
        return [rules_plan.rule_plan(p.model, mods), rules_plan.rule_semi(p.model, mods)]
    return ctx.per_model(["T-PLAN", "T-SEMI"], f)


def g_loop(ctx):
    def f(p):
        return list(rules_loop.rule_loop_pending(p.model))
    return ctx.per_model(["T-LOOP", "T-PENDING"], f)


def g_api(ctx):
    def f(p):
        m = p.model
        src = open(p.job["src"]).read()
        return [rules_api.rule_api(m), rules_api.rule_alloc(m, src, list(m.rule_mods.values())), rules_api.rule_enum(m)]
    return ctx.per_model(["T-API", "T-ALLOC", "T-ENUM"], f)


def g_mor(ctx):
    def f(p):
        m = p.model
        return [rules_mor.rule_mor(m), rules_mor.rule_age(m), rules_mor.rule_prune_use(m)]
    return ctx.per_model(["T-MOR", "T-AGE", "T-PRUNE-USE"], f)


GROUPS = {
    "mor": g_mor,
    "api": g_api,
    "struct": g_struct,
    "plan": g_plan,
    "loop": g_loop,
}

# rule id -> group
RULE_GROUP = {
    "T-FAM": "struct", "T-INS": "struct", "T-MOVE": "struct", "T-DIRTY": "struct", "T-CANON": "struct", "T-DELTA": "struct",
    "T-FUNC": "struct", "T-DIAG": "struct",
    "T-PLAN": "plan", "T-SEMI": "plan", "T-ENV": "plan",
    "T-LOOP": "loop", "T-PENDING": "loop",
    "T-MOR": "mor", "T-AGE": "mor", "T-PRUNE-USE": "mor",
    "T-API": "api", "T-ALLOC": "api", "T-ENUM": "api",
}

# Violations are attributed to rules by the prefix of their key (T-DIAG findings are produced inside
# T-INS/T-MOVE/T-CANON but keyed T-DIAG:..).
PROPERTIES = {
    "C01": {
        "rules": ["T-PLAN", "T-SEMI", "T-LOOP", "T-DELTA", "T-DIRTY", "T-CANON", "T-INS", "T-MOVE", "T-DIAG", "T-FUNC", "T-AGE"],
        "level": "translation_validation",
    },
    "C02": {"rules": ["T-PLAN", "T-DIAG", "T-LOOP", "T-API", "T-ALLOC"], "level": "translation_validation"},
    "C03": {"rules": ["T-SEMI", "T-MOVE", "T-CANON", "T-LOOP", "T-INS", "T-DIAG", "T-AGE"], "level": "translation_validation"},
    "C04": {"rules": ["T-FAM", "T-INS", "T-MOVE", "T-CANON", "T-DIAG", "T-DIRTY", "T-API", "T-ENUM", "T-MOR"], "level": "translation_validation"},
    "C05": {"rules": ["T-API", "T-INS"], "level": "other"},
    "C06": {"rules": ["T-ALLOC", "T-DIRTY", "T-MOVE", "T-CANON"], "level": "other"},
    "C15": {"rules": ["T-ALLOC", "T-ENUM", "T-DELTA"], "level": "other"},
    "C07": {"rules": ["T-LOOP", "T-PENDING"], "level": "other"},
    "C17": {"rules": ["T-MOR", "T-AGE", "T-LOOP"], "level": "translation_validation"},
    "C16": {"rules": ["T-SEMI", "T-PLAN"], "level": "translation_validation"},
}

# floors: minimal number of rule instances over the corpus set alone (80% of the count measured when the rule was
# written); a rule that matches fewer instances fails closed.
FLOORS = {}
