"""Which rules decide which property, and the runner groups that produce the rule results."""
from . import rules_struct, rules_plan, rules_loop, rules_api, rules_mor, rules_rt, rules_cc, rules_x, rules_flat, rules_template
import os

from .core import RuleResult
from .mir import Facts

# ---------------------------------------------------------------------------
# runner groups: name -> function(ctx) -> list[RuleResult]; memoised per run


def g_struct(ctx):
    def f(p):
        m = p.model
        return [rules_struct.rule_fam(m), rules_struct.rule_ins(m), rules_struct.rule_move(m), rules_struct.rule_dirty(m),
                rules_struct.rule_canon(m), rules_struct.rule_delta(m), rules_struct.rule_func(m)]
    return ctx.per_model(["T-FAM", "T-INS", "T-MOVE", "T-DIRTY", "T-CANON", "T-DELTA", "T-FUNC"], f)


def g_plan(ctx):
    def f(p):
        mods = list(p.model.rule_mods.values())
        return [rules_plan.rule_plan(p.model, mods), rules_plan.rule_semi(p.model, mods)]
    return ctx.per_model(["T-PLAN", "T-SEMI"], f)


def g_flat(ctx):
    """T-FLAT: enumerated rules only (quick: a seeded sample of 120; thorough: the whole family)."""
    setname = "enum" if ctx.tier == "thorough" else "enumq%d" % ctx.seed

    def f(p):
        # enumerated batches, and corpus files that come with a sidecar of expected flat rules
        side = p.job["src"][:-4] + ".json"
        if not os.path.exists(side):
            return [RuleResult("T-FLAT")]
        return [rules_flat.rule_flat(p.model, list(p.model.rule_mods.values()), side)]
    return ctx.per_model(["T-FLAT"], f, sets=(setname, "corpus"))


def g_template(ctx):
    return rules_template.rule_template_loop(ctx.art)


def g_loop(ctx):
    def f(p):
        return list(rules_loop.rule_loop_pending(p.model))
    return ctx.per_model(["T-LOOP", "T-PENDING"], f)


def g_api(ctx):
    def f(p):
        m = p.model
        src = open(p.job["src"]).read()
        return [rules_api.rule_api(m), rules_api.rule_alloc(m, src, list(m.rule_mods.values())), rules_api.rule_enum(m)]
    return ctx.per_model(["T-API", "T-ALLOC", "T-ENUM"], f)


def g_mor(ctx):
    def f(p):
        m = p.model
        return [rules_mor.rule_mor(m), rules_mor.rule_age(m), rules_mor.rule_prune_use(m)]
    return ctx.per_model(["T-MOR", "T-AGE", "T-PRUNE-USE"], f)


def _rt_facts(ctx):
    return ctx.memo("facts_rt", lambda: Facts(ctx.art.mir_facts("eqlog_runtime")))


def _rt_trees(ctx):
    return ctx.memo("trees_rt", lambda: ctx.art.source_trees(["eqlog-runtime/src/prefix_tree.rs", "eqlog-runtime/src/unification.rs",
                                                             "eqlog-runtime/src/wbtree/map.rs", "eqlog-runtime/src/wbtree/set.rs"]))


def g_rt_mir(ctx):
    F = _rt_facts(ctx)
    size, bal = rules_rt.rule_size_bal(F)
    out = [rules_rt.rule_mapfree(F), rules_rt.rule_share(F), rules_rt.rule_freeze(F), rules_rt.rule_unsafe(F), rules_rt.rule_cborder(F), rules_rt.rule_len(F),
           size, bal, rules_rt.rule_sym(F), rules_rt.rule_kahn(F)]
    for r in out:
        r.counts["mir_bodies"] = len(F.bodies)
    return out


def g_rt_syn(ctx):
    t = _rt_trees(ctx)
    return [rules_rt.rule_uf(t), rules_rt.rule_sib(t), rules_rt.rule_prune(t), rules_rt.rule_nav(t), rules_rt.rule_leaf(t), rules_rt.rule_set(t), rules_rt.rule_mirror(t)]


def g_prune_use(ctx):
    return ctx.per_model(["T-PRUNE-USE"], lambda p: [rules_mor.rule_prune_use(p.model)])


def _cc_facts(ctx):
    return ctx.memo("facts_cc", lambda: Facts(ctx.art.mir_facts("eqlog")))


def g_cc_digest(ctx):
    return [rules_cc.rule_digest(_cc_facts(ctx))]


def g_cc_diag(ctx):
    F = _cc_facts(ctx)
    return [rules_cc.rule_panic(F), rules_cc.rule_lines(F), rules_cc.rule_locs(F)]


def g_cc_det(ctx):
    F = _cc_facts(ctx)
    return [rules_cc.rule_det(F, "M-DET", expect_positive=("hash-iteration", "error::transitive_closure")), rules_cc.rule_par(F), rules_cc.rule_dirtaint(F)]


def g_cc_misc(ctx):
    F = _cc_facts(ctx)
    return [rules_cc.rule_funcdom(F), rules_cc.rule_emit(F), rules_cc.rule_compall(F)]


def g_rt_det(ctx):
    return [rules_cc.rule_det(_rt_facts(ctx), "M-DETRT")]


def g_x(ctx):
    return ctx.per_model(["T-X", "T-DET"], lambda p: [rules_x.rule_x(p), rules_x.rule_det_emitted(p)])


def g_typecheck(ctx):
    # quick: corpus in both build modes, shipped theories in module mode only (the repository's own test build compiles
    # their component mode); thorough: everything in both modes
    import json as _json
    import os as _os
    from .core import RuleResult, Violation
    full = ctx.tier == "thorough"
    cache = _os.path.join(ctx.art.dir, "typecheck_%s.json" % ("full" if full else "quick"))
    if _os.path.exists(cache):
        d = _json.load(open(cache))
        rr = RuleResult("T-TYPECHECK")
        rr.instances, rr.samples, rr.counts = d["instances"], d["samples"], d["counts"]
        rr.violations = [Violation(v["rule"], v["key"], v["where"], v["msg"], v["detail"]) for v in d["violations"]]
    else:
        rr = rules_x.rule_typecheck(ctx.programs() + ctx.programs(("tconly",)), full=full)
        from .core import write_json
        write_json(cache, {"instances": rr.instances, "samples": rr.samples, "counts": rr.counts, "violations": [v.to_json() for v in rr.violations]})
    return [rr] + ctx.per_model([], lambda p: [])


GROUPS = {
    "template": g_template,
    "flat": g_flat,
    "cc_digest": g_cc_digest,
    "cc_diag": g_cc_diag,
    "cc_det": g_cc_det,
    "cc_misc": g_cc_misc,
    "rt_det": g_rt_det,
    "x": g_x,
    "typecheck": g_typecheck,
    "rt_mir": g_rt_mir,
    "rt_syn": g_rt_syn,
    "prune_use": g_prune_use,
    "mor": g_mor,
    "api": g_api,
    "struct": g_struct,
    "plan": g_plan,
    "loop": g_loop,
}

EMITTED_GROUPS = ("struct", "plan", "loop", "api", "mor", "x", "typecheck", "prune_use", "flat")

# rule id -> group
RULE_GROUP = {
    "T-FAM": "struct", "T-INS": "struct", "T-MOVE": "struct", "T-DIRTY": "struct", "T-CANON": "struct", "T-DELTA": "struct",
    "T-FUNC": "struct", "T-DIAG": "struct",
    "T-PLAN": "plan", "T-SEMI": "plan", "T-ENV": "plan", "T-FLAT": "flat",
    "T-LOOP": "loop", "T-PENDING": "loop",
    "T-MOR": "mor", "T-AGE": "mor", "T-PRUNE-USE": "mor",
    "M-DIGEST": "cc_digest", "M-PANIC": "cc_diag", "M-LINES": "cc_diag", "M-LOCS": "cc_diag", "M-DET": "cc_det", "M-PAR": "cc_det", "M-DIRTAINT": "cc_det",
    "M-FUNCDOM": "cc_misc", "M-EMIT": "cc_misc", "M-COMPALL": "cc_misc", "M-DETRT": "rt_det", "T-X": "x", "T-DET": "x", "T-TYPECHECK": "typecheck",
    "M-MAPFREE": "rt_mir", "M-FREEZE": "rt_mir", "M-UNSAFE": "rt_mir", "M-CBORDER": "rt_mir", "M-LEN": "rt_mir", "M-SIZE": "rt_mir",
    "M-BAL": "rt_mir", "M-SHARE": "rt_mir", "M-SYM": "rt_mir", "M-KAHN": "rt_mir", "M-UF": "rt_syn", "S-SIB": "rt_syn", "S-PRUNE": "rt_syn", "S-NAV": "rt_syn", "S-LEAF": "rt_syn", "S-SET": "rt_syn",
    "S-MIRROR": "rt_syn",
    "T-API": "api", "T-ALLOC": "api", "T-ENUM": "api",
}

# rules decided by more than one group (emitted code of every program + the generator's template)
EXTRA_GROUPS = {"T-LOOP": ["template"], "T-PENDING": ["template"]}


def groups_of(rule):
    return [RULE_GROUP[rule]] + EXTRA_GROUPS.get(rule, [])


# Violations are attributed to rules by the prefix of their key (T-DIAG findings are produced inside
# T-INS/T-MOVE/T-CANON but keyed T-DIAG:..).
PROPERTIES = {
    "C01": {
        # reading more ages than labelled finds the same matches again: closedness is not affected (C16 is)
        # (likewise a labelling enumerated twice, or an all-old labelling enumerated, by the semi-naive family)
        "irrelevant_keys": ["T-PLAN:atom:age-widened", "T-SEMI:family:cover:overlap", "T-SEMI:family:cover:all-old-enumerated"],
        "rules": ["T-PLAN", "T-SEMI", "T-LOOP", "T-DELTA", "T-DIRTY", "T-CANON", "T-INS", "T-MOVE", "T-DIAG", "T-FUNC", "T-AGE", "T-FLAT", "S-SIB", "S-LEAF", "S-NAV", "S-PRUNE", "S-SET"],
        "level": "translation_validation",
    },
    # soundness does not depend on which ages an atom is served from
    "C02": {"irrelevant_keys": ["T-PLAN:atom:age-widened", "T-PLAN:atom:age-narrowed"], "rules": ["T-PLAN", "T-DIAG", "T-INS", "T-MOVE", "T-CANON", "T-LOOP", "T-API", "T-ALLOC", "T-FLAT", "S-SIB", "S-LEAF", "S-NAV", "S-SET"], "level": "translation_validation"},
    "C03": {"irrelevant_keys": ["T-SEMI:family:cover:overlap", "T-SEMI:family:cover:all-old-enumerated"], "rules": ["T-SEMI", "T-MOVE", "T-CANON", "T-LOOP", "T-INS", "T-DIAG", "T-AGE", "S-SIB", "S-LEAF", "S-PRUNE", "S-SET"], "level": "translation_validation"},
    "C04": {"rules": ["T-FAM", "T-INS", "T-MOVE", "T-CANON", "T-DIAG", "T-DIRTY", "T-API", "T-ENUM", "T-MOR", "S-SIB", "S-LEAF", "S-NAV", "S-SET"], "level": "translation_validation"},
    "C05": {"rules": ["T-API", "T-INS", "M-UF", "S-SIB", "S-LEAF", "S-NAV", "S-SET"], "level": "other"},
    "C08": {"rules": ["S-SIB", "S-PRUNE", "S-LEAF", "S-SET", "T-PRUNE-USE", "M-FREEZE", "M-UNSAFE", "M-MAPFREE", "M-SHARE", "M-CBORDER"], "level": "other"},
    "C14": {"rules": ["M-FREEZE", "M-UNSAFE", "M-MAPFREE", "M-SHARE", "M-CBORDER", "M-LEN", "M-SIZE", "M-BAL", "S-NAV", "S-SET", "S-MIRROR"], "level": "other"},
    # of T-MOR only the clauses about the call of the topological sort concern C18 (how its output is used is C17)
    "C18": {"only_keys": {"T-MOR": ["T-MOR:recompute:toposort-"]}, "rules": ["M-SYM", "M-KAHN", "T-MOR"], "level": "other"},
    # termination: of the rules about canonicalize / move_new_to_old only the clauses about clearing what is_dirty reads
    "C06": {"only_keys": {"T-CANON": ["T-CANON:canonicalize:uprooted-", "T-CANON:canonicalize:type-not-drained", "T-CANON:canonicalize:drained-not-processed", "T-CANON:canonicalize:unrecognised", "T-CANON:other:uprooted-shrunk"], "T-MOVE": ["T-MOVE:move:not-cleared", "T-MOVE:move:flag", "T-MOVE:move:clear-", "T-MOVE:move:unrecognised"]}, "rules": ["T-ALLOC", "M-FUNCDOM", "T-DIRTY", "T-MOVE", "T-CANON", "S-PRUNE", "S-SIB", "S-LEAF", "S-SET"], "level": "other"},
    "C09": {"rules": ["T-TYPECHECK", "T-ENV", "T-X", "T-DELTA"], "level": "translation_validation"},
    "C11": {"rules": ["M-PANIC", "M-LINES", "M-LOCS"], "level": "other"},
    "C12": {"rules": ["M-DIGEST", "M-COMPALL"], "level": "other"},
    # which string names the exported symbols is C19's matter: any choice is deterministic
    "C13": {"irrelevant_keys": ["M-DIRTAINT:process_file:symbol-prefix"], "rules": ["M-DET", "M-PAR", "M-DIRTAINT"], "level": "other"},
    "C19": {"rules": ["T-X", "M-EMIT", "M-DIRTAINT", "M-COMPALL"], "level": "translation_validation"},
    "C20": {"rules": ["M-DETRT", "T-DET", "M-UNSAFE", "M-FREEZE"], "level": "other"},
    "C15": {"rules": ["T-ALLOC", "T-ENUM", "T-DELTA", "S-SIB", "S-LEAF", "S-NAV", "S-SET"], "level": "other"},
    "C07": {"rules": ["T-LOOP", "T-PENDING"], "level": "other"},
    # of the close_until typestate only the clauses about running rules / evaluating the condition on stale `all` copies
    "C17": {"only_keys": {"T-LOOP": ["T-LOOP:close_until:rules-on-stale-tables", "T-LOOP:close_until:condition-on-stale-tables", "T-LOOP:close_until:env-"]}, "rules": ["T-MOR", "T-AGE", "T-LOOP", "S-PRUNE", "S-SIB"], "level": "translation_validation"},
    "C16": {"rules": ["T-SEMI", "T-PLAN", "T-FLAT"], "level": "translation_validation"},
}

# Floors: minimal number of rule instances (emitted-code rules: over the /verif/corpus set alone, which the framework
# controls; other rules: total). About 80% of the count measured on the tree the rule was written against (2026-09-23,
# tools/measure_floors.py); inventory rules (M-PANIC, M-DET, ..) fail closed through their anchors instead (roots, positive
# example), since for them fewer instances is not vacuity. A rule below its floor is reported as ANCHOR:floor:<rule>.
FLOORS = {
    ("T-FAM", "quick"): 970, ("T-INS", "quick"): 790, ("T-MOVE", "quick"): 410, ("T-CANON", "quick"): 610, ("T-DIRTY", "quick"): 170,
    ("T-DELTA", "quick"): 640, ("T-FUNC", "quick"): 40, ("T-PLAN", "quick"): 1340, ("T-SEMI", "quick"): 120, ("T-LOOP", "quick"): 1070,
    ("T-PENDING", "quick"): 95, ("T-API", "quick"): 1100, ("T-ALLOC", "quick"): 95, ("T-ENUM", "quick"): 33, ("T-MOR", "quick"): 40,
    ("T-AGE", "quick"): 820, ("T-PRUNE-USE", "quick"): 16, ("T-X", "quick"): 650, ("T-DET", "quick"): 710, ("T-TYPECHECK", "quick"): 150,
    ("S-SIB", "quick"): 108, ("S-PRUNE", "quick"): 32, ("M-CBORDER", "quick"): 37, ("M-SIZE", "quick"): 13, ("M-BAL", "quick"): 7,
    ("M-DIGEST", "quick"): 23, ("M-FREEZE", "quick"): 29, ("M-EMIT", "quick"): 13, ("M-PAR", "quick"): 8, ("M-MAPFREE", "quick"): 700,
    ("M-UNSAFE", "quick"): 700, ("M-SYM", "quick"): 3, ("M-UF", "quick"): 4, ("M-LEN", "quick"): 4, ("M-DIRTAINT", "quick"): 3,
    ("M-FUNCDOM", "quick"): 2, ("M-SHARE", "quick"): 14, ("S-NAV", "quick"): 12, ("S-LEAF", "quick"): 11, ("S-SET", "quick"): 8,
    ("S-MIRROR", "quick"): 11,   # 10 twin pairs + the reflection-is-not-identity witness: all of them, counted by hand
}
