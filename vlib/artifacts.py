"""Build steps shared by all checks, cached by tree hash under /verif/.cache/trees/<hash>.

Nothing here decides a property. It (1) builds the eqlog CLI from /repo's working tree,
(2) lets it emit module-mode and component-mode sources (rustc replaced by /bin/true: nothing
emitted is compiled or run), (3) parses emitted and hand-written sources with the syn front end
and (4) runs the rustc_private driver over the crates to dump MIR facts.
"""
import glob
import json
import os
import shutil
import time
from concurrent.futures import ThreadPoolExecutor

from .core import (ANALYZER_BIN, ANALYZER_TARGET, CACHE, CLI_TARGET, DRIVER_BIN, DRIVER_TARGET, NCPU, REPO, REPO_TAG, VERIF,
                   BuildFailed, Lock, log, run, tree_hash)

TREES = os.path.join(CACHE, "trees")
KEEP_TREES = 10


class Artifacts:
    def __init__(self):
        self.hash = tree_hash()
        self.dir = os.path.join(TREES, self.hash)
        os.makedirs(self.dir, exist_ok=True)
        os.utime(self.dir)
        self._json_cache = {}

    # ---- generic step cache -------------------------------------------------
    def _done(self, step):
        return os.path.exists(os.path.join(self.dir, step + ".done"))

    def _mark(self, step, info=None):
        with open(os.path.join(self.dir, step + ".done"), "w") as f:
            json.dump(info or {}, f)

    def _info(self, step):
        with open(os.path.join(self.dir, step + ".done")) as f:
            return json.load(f)

    def prune(self):
        ds = sorted(glob.glob(os.path.join(TREES, "*")), key=os.path.getmtime, reverse=True)
        for d in ds[KEEP_TREES:]:
            shutil.rmtree(d, ignore_errors=True)

    # ---- framework binaries ---------------------------------------------------
    def ensure_analyzer(self):
        src = os.path.join(VERIF, "analyzer", "src", "main.rs")
        if os.path.exists(ANALYZER_BIN) and os.path.getmtime(ANALYZER_BIN) >= os.path.getmtime(src):
            return
        with Lock():
            run(["cargo", "build", "--release", "--offline"], cwd=os.path.join(VERIF, "analyzer"),
                env={"CARGO_TARGET_DIR": ANALYZER_TARGET}, check=True)

    def ensure_driver(self):
        src = os.path.join(VERIF, "driver", "src", "main.rs")
        if os.path.exists(DRIVER_BIN) and os.path.getmtime(DRIVER_BIN) >= os.path.getmtime(src):
            return
        with Lock():
            run(["cargo", "+nightly", "build", "--release", "--offline"], cwd=os.path.join(VERIF, "driver"),
                env={"CARGO_TARGET_DIR": DRIVER_TARGET}, check=True)

    # ---- the eqlog CLI from the working tree ---------------------------------
    def cli(self):
        """Path of the eqlog CLI built from the current working tree."""
        marker = os.path.join(CLI_TARGET, "built_for_hash")
        binp = os.path.join(CLI_TARGET, "debug", "eqlog")
        with Lock("cli%s.lock" % REPO_TAG):
            if os.path.exists(marker) and os.path.exists(binp) and open(marker).read() == self.hash:
                return binp
            t0 = time.time()
            main_target = os.path.join(CACHE, "cli-target")
            if not os.path.exists(CLI_TARGET) and REPO_TAG and os.path.isdir(main_target):
                # scratch copy of the repository: reuse the dependency builds of the main target directory
                log("[artifacts] seeding %s from %s" % (CLI_TARGET, main_target))
                run(["cp", "-a", main_target, CLI_TARGET])
            elif not os.path.exists(CLI_TARGET) and os.path.isdir(os.path.join(REPO, "target", "debug")):
                # seed from the test suite's target dir when present: saves the 7-minute cold build
                log("[artifacts] seeding CLI target dir from %s/target" % REPO)
                run(["cp", "-a", os.path.join(REPO, "target"), CLI_TARGET])
            p = run(["cargo", "build", "--offline", "--features", "rebuild", "--bin", "eqlog"],
                    cwd=os.path.join(REPO, "eqlog"), env={"CARGO_TARGET_DIR": CLI_TARGET})
            if p.returncode != 0:
                raise BuildFailed("cargo build of the eqlog CLI failed:\n" + p.stderr[-6000:])
            with open(marker, "w") as f:
                f.write(self.hash)
            log("[artifacts] built eqlog CLI in %.1fs" % (time.time() - t0))
            return binp

    # ---- emission ----------------------------------------------------------------
    def theory_sets(self):
        """name -> list of (relpath, abspath) of .eql inputs."""
        sets = {}
        shipped_root = os.path.join(REPO, "eqlog-test-eval", "src")
        shipped = []
        for root, _dirs, files in os.walk(shipped_root):
            for f in sorted(files):
                if f.endswith(".eql"):
                    ap = os.path.join(root, f)
                    shipped.append((os.path.relpath(ap, shipped_root), ap))
        sets["shipped"] = sorted(shipped)
        corpus_root = os.path.join(VERIF, "corpus")
        sets["corpus"] = sorted((f, os.path.join(corpus_root, f)) for f in os.listdir(corpus_root) if f.endswith(".eql"))
        # programs that only the type checker looks at (T-TYPECHECK): the emitted code is not of the shape the other rules read
        tc_root = os.path.join(VERIF, "corpus_tc")
        sets["tconly"] = sorted((f, os.path.join(tc_root, f)) for f in (os.listdir(tc_root) if os.path.isdir(tc_root) else []) if f.endswith(".eql"))
        # thorough tier: the compiler's own theory, and the bounded-exhaustive family of flat-shaped rules
        sets["selfhost"] = [("eqlog.eql", os.path.join(REPO, "eqlog-eqlog", "src", "eqlog.eql"))]
        return sets

    def enum_set(self, seed, quick=False):
        """Writes the enumerated rule batches. Thorough: the whole family (deterministic). Quick: one batch of 120 rules
        sampled with `seed`."""
        from . import enumerator
        d = os.path.join(self.dir, "enumq_src_%d" % seed if quick else "enum_src")
        info_path = os.path.join(d, "info.json")
        if not os.path.exists(info_path):
            if quick:
                small, large, info = enumerator.select(seed, max_small=60, sample_large=60)
            else:
                small, large, info = enumerator.select(seed, max_small=100000, sample_large=100000)
            rules = small + large
            paths = enumerator.write_batches(d, rules)
            info["rules"] = len(rules)
            info["batches"] = len(paths)
            with open(info_path, "w") as f:
                json.dump(info, f)
        files = sorted(f for f in os.listdir(d) if f.endswith(".eql"))
        return [(f, os.path.join(d, f)) for f in files], json.load(open(info_path))

    def _emit_one(self, cli, setname, rel, src, outroot):
        """Run the CLI on one .eql file in both build modes. Returns a status dict."""
        stem = rel[:-4]
        job = os.path.join(outroot, setname, stem.replace("/", "__"))
        ind = os.path.join(job, "in")
        os.makedirs(os.path.join(ind, os.path.dirname(rel)), exist_ok=True)
        shutil.copyfile(src, os.path.join(ind, rel))
        st = {"set": setname, "rel": rel, "src": src, "job": job}
        t0 = time.time()
        cmd_m = [cli, ind, os.path.join(job, "module")]
        cmd_c = [cli, ind, os.path.join(job, "cmodule"), "--build-type", "component", "--component-out-dir",
                 os.path.join(job, "comp"), "--rustc-path", "/bin/true", "--runtime-rlib-path", "/nonexistent.rlib"]
        with ThreadPoolExecutor(max_workers=2) as ex2:
            fm = ex2.submit(run, cmd_m, None, None, 7200)
            fc = ex2.submit(run, cmd_c, None, None, 7200)
            p = fm.result()
            st["module_rc"] = p.returncode
            st["module_err"] = p.stderr[-2000:]
            p = fc.result()
            st["component_rc"] = p.returncode
            st["component_err"] = p.stderr[-2000:]
        st["wall_s"] = round(time.time() - t0, 2)
        st["module_files"] = sorted(glob.glob(os.path.join(job, "module", "**", "*.rs"), recursive=True))
        st["cmodule_files"] = sorted(glob.glob(os.path.join(job, "cmodule", "**", "*.rs"), recursive=True))
        st["comp_files"] = sorted(glob.glob(os.path.join(job, "comp", "**", "*.rs"), recursive=True))
        return st

    def emitted(self, sets=("shipped", "corpus")):
        """Emit (cached) and return the list of job status dicts for the requested sets."""
        out = []
        todo = [s for s in sets if not self._done("emit_" + s)]
        if todo:
            cli = self.cli()
            with Lock("emit-%s.lock" % self.hash):
                todo = [s for s in sets if not self._done("emit_" + s)]
                all_sets = self.theory_sets()
                seed = int(os.environ.get("VERIF_SEED", "0") or 0)
                if "enum" in todo:
                    all_sets["enum"], _info = self.enum_set(seed)
                for s in todo:
                    if s.startswith("enumq"):
                        all_sets[s], _info = self.enum_set(seed, quick=True)
                for s in todo:
                    outroot = os.path.join(self.dir, "emit")
                    shutil.rmtree(os.path.join(outroot, s), ignore_errors=True)
                    t0 = time.time()
                    with ThreadPoolExecutor(max_workers=NCPU) as ex:
                        sts = list(ex.map(lambda ra: self._emit_one(cli, s, ra[0], ra[1], outroot), all_sets[s]))
                    # parse every emitted file with the syn front end
                    self.ensure_analyzer()
                    files = [f for st in sts for f in st["module_files"] + st["cmodule_files"] + st["comp_files"]]
                    tree_path = os.path.join(self.dir, "emit", s + ".trees.json")
                    run([ANALYZER_BIN, tree_path, "--stdin-list"], stdin="\n".join(files) + "\n", check=True)
                    self._mark("emit_" + s, {"jobs": sts, "wall_s": round(time.time() - t0, 2), "trees": tree_path})
                    log("[artifacts] emitted set %s: %d theories in %.1fs" % (s, len(sts), time.time() - t0))
            self.prune()
        for s in sets:
            info = self._info("emit_" + s)
            out += info["jobs"]
        return out

    def emitted_trees(self, setname):
        key = "emit_trees_" + setname
        if key not in self._json_cache:
            info = self._info("emit_" + setname)
            with open(info["trees"]) as f:
                self._json_cache[key] = json.load(f)
        return self._json_cache[key]

    # ---- hand-written sources through syn ------------------------------------------
    def source_trees(self, relfiles):
        """syn trees of hand-written files of the repository (paths relative to /repo)."""
        self.ensure_analyzer()
        key = "src_" + "_".join(sorted(relfiles))
        import hashlib
        name = "src_" + hashlib.sha256(key.encode()).hexdigest()[:12] + ".json"
        path = os.path.join(self.dir, name)
        if not os.path.exists(path):
            files = [os.path.join(REPO, f) for f in relfiles]
            run([ANALYZER_BIN, path + ".tmp", *files], check=True)
            os.replace(path + ".tmp", path)
        with open(path) as f:
            d = json.load(f)
        return {os.path.relpath(k, REPO): v for k, v in d.items()}

    # ---- MIR facts through the rustc_private driver -------------------------------------
    def mir_facts(self, crate):
        """crate in {'eqlog_runtime', 'eqlog'}: returns the parsed fact file of the driver."""
        key = "mir_" + crate
        if key in self._json_cache:
            return self._json_cache[key]
        path = os.path.join(self.dir, "mir", crate + ".json")
        if not self._done(key):
            self.ensure_driver()
            with Lock("mir%s.lock" % REPO_TAG):
                if not self._done(key):
                    self._run_driver(crate, path)
                    self._mark(key)
            self.prune()
        with open(path) as f:
            self._json_cache[key] = json.load(f)
        return self._json_cache[key]

    def _run_driver(self, crate, out_path):
        os.makedirs(os.path.dirname(out_path), exist_ok=True)
        cwd = {"eqlog_runtime": "eqlog-runtime", "eqlog": "eqlog"}[crate]
        tdir = os.path.join(CACHE, "mir-target-" + crate + REPO_TAG)
        main_t = os.path.join(CACHE, "mir-target-" + crate)
        if REPO_TAG and not os.path.exists(tdir) and os.path.isdir(main_t):
            run(["cp", "-a", main_t, tdir])
        if crate == "eqlog":
            # the compiler crate needs eqlog-eqlog/prebuilt/eqlog.rs, which the CLI build (feature `rebuild`) keeps current
            self.cli()
        # cargo's freshness cache would skip the wrapper on a warm target directory. The wrapper's path is part of the
        # fingerprint of workspace members, so a per-tree-hash symlink makes cargo rerun exactly those through the driver.
        wdir = os.path.join(CACHE, "wrappers", self.hash + "-" + crate)
        for old in glob.glob(os.path.join(CACHE, "wrappers", "*")):
            # only stale ones: a run over another tree (VERIF_REPO, other lock) may be using its wrapper right now
            if old != wdir and time.time() - os.path.getmtime(old) > 6 * 3600:
                shutil.rmtree(old, ignore_errors=True)
        os.makedirs(wdir, exist_ok=True)
        wrapper = os.path.join(wdir, "verif-driver")
        if os.path.lexists(wrapper):
            os.remove(wrapper)
        # a fresh name every time: the same tree hash may be analysed again after the fact file was pruned
        wrapper = os.path.join(wdir, "verif-driver-%d" % int(time.time() * 1000))
        os.symlink(DRIVER_BIN, wrapper)
        if os.path.exists(out_path):
            os.remove(out_path)
        sysroot = run(["rustc", "+nightly", "--print", "sysroot"], check=True).stdout.strip()
        env = {
            "LD_LIBRARY_PATH": os.path.join(sysroot, "lib"),
            "RUSTFLAGS": "-Zmir-opt-level=0 -Awarnings -Cdebug-assertions=off -Coverflow-checks=on",
            "RUSTC_WORKSPACE_WRAPPER": wrapper,
            "CARGO_TARGET_DIR": tdir,
            "VERIF_FACTS_DIR": os.path.dirname(out_path),
            "VERIF_FACTS_CRATES": crate,
        }
        args = ["cargo", "+nightly", "check", "--offline", "--lib"]
        t0 = time.time()
        p = run(args, cwd=os.path.join(REPO, cwd), env=env, timeout=3600)
        if p.returncode != 0:
            raise BuildFailed("driver run over %s failed:\n%s" % (crate, p.stderr[-6000:]))
        if not os.path.exists(out_path):
            raise BuildFailed("driver produced no fact file for %s (cargo skipped the wrapper?)\n%s" % (crate, p.stderr[-3000:]))
        log("[artifacts] MIR facts of %s in %.1fs" % (crate, time.time() - t0))
