"""T-X (module build vs component build), T-DET (emitted code names no nondeterminism source),
T-TYPECHECK (rustc's type checker accepts every emitted module; nothing is linked or run)."""
import json
import os
import re
import shutil
import tempfile
from concurrent.futures import ThreadPoolExecutor

from .core import CACHE, NCPU, REPO, REPO_TAG, RuleResult, BuildFailed, run, Lock
from .emodel import AnchorError
from .tree import kind, strip_ln, walk, nospace


def _eq(a, b):
    return json.dumps(strip_ln(a), sort_keys=True) == json.dumps(strip_ln(b), sort_keys=True)


def rule_x(p):
    """p: EmittedProgram with .model (module mode), .cmodel (component-mode module), .comps (component files)."""
    res = RuleResult("T-X")
    m, cm = p.model, p.cmodel
    comps = p.comps
    # map component file -> rule name through its exported symbol
    by_link = {}
    for path, mod in comps.items():
        by_link[mod.export["n"]] = mod
    # (iii) imports == exports
    links = {d["link"]: name for name, d in cm.extern_fns.items()}
    if set(links) == set(by_link) and len(by_link) == len(comps):
        res.ok()
    else:
        res.bad("T-X:symbols:import-export-mismatch", p.id, "%s: module imports %s, components export %s" % (p.id, sorted(set(links) - set(by_link)), sorted(set(by_link) - set(links))))
    # module mode: imports == embedded mods
    links_m = {d["link"]: name for name, d in m.extern_fns.items()}
    exp_m = {mod.export["n"]: mod for mod in m.rule_mods.values()}
    if set(links_m) == set(exp_m):
        res.ok()
    else:
        res.bad("T-X:symbols:import-export-mismatch-module-mode", p.id, "%s: module-mode imports %s, embedded rule modules export %s" % (p.id, sorted(set(links_m) - set(exp_m)), sorted(set(exp_m) - set(links_m))))
    if links != links_m:
        res.bad("T-X:symbols:modes-differ", p.id, "%s: the two build modes import different symbols" % p.id)
    else:
        res.ok()
    for link, name in sorted(links.items()):
        d = cm.extern_fns[name]
        comp = by_link.get(link)
        emb = exp_m.get(link)
        if comp is None or emb is None:
            continue
        # (ii) parameter type of the import == parameter type of the export
        for side, mod in (("component", comp), ("embedded", emb)):
            ps = [nospace(x["t"]) for x in mod.export["params"] if kind(x) == "param"]
            if ps == [d["env"]]:
                res.ok()
            else:
                res.bad("T-X:signature:%s" % side, "%s %s" % (p.id, name), "%s: %s is imported as fn(%s) but the %s rule module exports fn(%s)" % (p.id, link, d["env"], side, ", ".join(ps)))
        # (i) env struct: module declaration == component declaration == embedded declaration
        decl = cm.env_structs.get(d["env"])
        decl_m = m.env_structs.get(d["env"])
        if decl is None or decl_m is None:
            res.bad("T-X:env:missing", "%s %s" % (p.id, name), "%s: env struct %s is not declared in the module" % (p.id, d["env"]))
            continue
        for side, other in (("component", comp.env), ("embedded", emb.env), ("module-mode module", decl_m)):
            if _eq(decl, other):
                res.ok()
                res.count("env_structs_compared")
            else:
                fa = [(f["n"], nospace(f["t"])) for f in decl["fields"]]
                fb = [(f["n"], nospace(f["t"])) for f in other["fields"]]
                res.bad("T-X:env:layout-differs:%s" % side.split(" ")[0], "%s %s" % (p.id, d["env"]),
                        "%s: env struct %s differs between the component-mode module and the %s: %s vs %s" % (p.id, d["env"], side, fa, fb))
        # (iv) embedded rule module == component file
        if _eq(emb.items, comp.items):
            res.ok()
            res.count("rule_modules_compared")
        else:
            res.bad("T-X:rule-code:differs", "%s %s" % (p.id, name), "%s: the rule module %s embedded by the module build differs from the component source" % (p.id, name))
    # (v) everything else identical between the two module files
    rest_m = [it for it in m.items if kind(it) != "mod"]
    rest_c = [it for it in cm.items if kind(it) != "mod"]
    if any(kind(it) == "mod" for it in cm.items):
        res.bad("T-X:component-module:embeds-rule-code", p.id, "%s: the component-mode module embeds rule modules" % p.id)
    if _eq(rest_m, rest_c):
        res.ok()
    else:
        res.bad("T-X:model-code:differs", p.id, "%s: model code outside the rule modules differs between the two build modes" % p.id)
    res.sample({"program": p.id, "rule_modules": len(links)})
    return res


FORBIDDEN_TOKENS = re.compile(r"\b(HashMap|HashSet|RandomState|SystemTime|Instant|thread_rng|UNIX_EPOCH)\b|\bstd::(time|thread|env|process)\b|\brand::|\{:p\}|\*\s*const\b|\*\s*mut\s+\w|\bas_ptr\b|\baddr_of|\.addr\(\)|\btransmute\b")
ALLOWED_FIELD_TYPES = re.compile(r"^(PrefixTree\d+|BTreeMap<u32,Vec<\[u32;\d+\]>>|Unification<\w+>|Vec<\w+>|bool|ModelDelta)$")


def rule_det_emitted(p):
    res = RuleResult("T-DET")
    files = [p.job["module_files"][0], p.job["cmodule_files"][0]] + list(p.job["comp_files"])
    # identifiers the theory itself declares (a type may be called Instant) are not library facilities
    declared = set(p.model.structs) | set(p.model.enums) | {v["n"] for e in p.model.enums.values() for v in e["variants"]}
    for f in files:
        with open(f) as fh:
            for i, line in enumerate(fh, 1):
                code = line.split("//", 1)[0]
                if code.lstrip().startswith("use "):
                    continue
                mm = FORBIDDEN_TOKENS.search(code)
                if mm and mm.group(0).strip() in declared:
                    mm = None
                if mm:
                    res.bad("T-DET:token:%s" % mm.group(0).strip(), "%s:%d" % (f.split("/emit/")[-1], i), "emitted code mentions `%s`" % mm.group(0).strip())
        res.ok()
    for n, t in p.model.field_types.items():
        if ALLOWED_FIELD_TYPES.match(t):
            res.ok()
        else:
            res.bad("T-DET:field-type:%s" % re.sub(r"\d+", "#", t)[:40], p.model.path, "model field %s has type %s" % (n, t))
    res.sample({"program": p.id, "files": len(files)})
    return res


# ---------------------------------------------------------------------------

def runtime_rlib():
    """Metadata-bearing rlib of the working tree's eqlog-runtime (built once per tree hash by cargo's own freshness check)."""
    tdir = os.path.join(CACHE, "rt-target" + REPO_TAG)
    with Lock("rt%s.lock" % REPO_TAG):
        p = run(["cargo", "build", "--offline", "--lib", "--message-format=json"], cwd=os.path.join(REPO, "eqlog-runtime"), env={"CARGO_TARGET_DIR": tdir})
        if p.returncode != 0:
            raise BuildFailed("cargo build of eqlog-runtime failed:\n" + p.stderr[-4000:])
        rlib = None
        for line in p.stdout.splitlines():
            try:
                d = json.loads(line)
            except ValueError:
                continue
            if d.get("reason") == "compiler-artifact" and d.get("target", {}).get("name") in ("eqlog_runtime", "eqlog-runtime"):
                for f in d.get("filenames", []):
                    if f.endswith(".rlib"):
                        rlib = f
        if rlib is None:
            raise BuildFailed("rlib of eqlog-runtime not found in cargo's output")
        return rlib


def typecheck_program(p, rlib, workdir, components=True):
    """Returns list of (what, stderr) failures. Two crates per program: the module-mode module; and the component-mode module
    together with every component source as a sibling module (each component file is self-contained)."""
    fails = []
    d = os.path.join(workdir, p.id.replace("/", "__"))
    os.makedirs(d, exist_ok=True)
    wrap = os.path.join(d, "module_wrap.rs")
    with open(wrap, "w") as f:
        f.write('#![allow(warnings)]\npub mod m { include!("%s"); }\n' % p.job["module_files"][0])
    r = run(["rustc", "--edition", "2024", "--crate-type", "lib", "--emit=metadata", "-o", os.path.join(d, "libmodule.rmeta"),
             "--extern", "eqlog_runtime=" + rlib, "-Awarnings", wrap])
    if r.returncode != 0:
        fails.append(("module", r.stderr))
    if not components:
        return fails
    wrap = os.path.join(d, "component_wrap.rs")
    with open(wrap, "w") as f:
        f.write('#![allow(warnings)]\npub mod m { include!("%s"); }\n' % p.job["cmodule_files"][0])
        for i, cf in enumerate(p.job["comp_files"]):
            f.write('pub mod component_%d { include!("%s"); }\n' % (i, cf))
    r = run(["rustc", "--edition", "2024", "--crate-type", "lib", "--emit=metadata", "-o", os.path.join(d, "libcomponent.rmeta"),
             "--extern", "eqlog_runtime=" + rlib, "-Awarnings", wrap])
    if r.returncode != 0:
        fails.append(("component-mode module and components", r.stderr))
    return fails


def rule_typecheck(programs, full=True):
    res = RuleResult("T-TYPECHECK")
    rlib = runtime_rlib()
    workdir = tempfile.mkdtemp(prefix="verif-tc-")
    try:
        ok_programs = [p for p in programs if not p.error or p.error[0] in ("not-parsable", "not-recognised")]
        runnable = [p for p in ok_programs if p.job.get("module_files") and p.job.get("cmodule_files")]
        with ThreadPoolExecutor(max_workers=NCPU) as ex:
            results = list(ex.map(lambda p: (p, typecheck_program(p, rlib, workdir, full or p.set != "shipped")), runnable))
        for p, fails in results:
            n = (2 + len(p.job["comp_files"])) if (full or p.set != "shipped") else 1   # sources type-checked
            if not fails:
                res.ok(n)
                res.count("sources_typechecked", n)
                continue
            res.ok(max(0, n - len(fails)))
            for what, err in fails:
                m = re.search(r"error(\[E\d+\])?: ([^\n]*)", err)
                code = (m.group(1) or "[syntax]") if m else "[?]"
                first = m.group(2) if m else err.strip().split("\n")[0]
                res.bad("T-TYPECHECK:%s:%s" % (p.id, code.strip("[]")), "%s (%s)" % (p.id, what), "%s: rustc rejects the emitted %s: %s" % (p.id, what, first[:300]))
        res.sample({"programs": len(runnable), "runtime_rlib": os.path.basename(rlib)})
    finally:
        shutil.rmtree(workdir, ignore_errors=True)
    return res
