"""Emitted-code model: reconstructs, from the syntax tree of one generated module, the index family,
the per-type fields, ModelDelta, the API functions and the rule modules with their flat-rule header comments.

Fails closed: anything that cannot be recognised raises AnchorError (reported as `rule=ANCHOR`).
"""
import re

from .tree import kind, nospace, walk, pat_names, find_fns


class AnchorError(Exception):
    pass


FIELD_RE = re.compile(r"^(?P<rel>.*)_(?P<age>new|old)_(?:eqs_(?P<eqs>(?:\d+_)*\d+)_)?order_(?P<order>(?:\d+_)*\d+|)(?:_(?P<copy>own|all))?$")
PT_RE = re.compile(r"^PrefixTree(\d+)$")


def norm(s):
    return s.replace("_", "").lower()


class IndexField:
    def __init__(self, name, rel, age, eqs, order, copy, n):
        self.name = name
        self.rel = rel          # relation snake name, or type snake name for type sets
        self.is_typeset = False
        self.age = age
        self.eqs = eqs          # tuple or None
        self.order = order      # tuple
        self.copy = copy        # None | 'own' | 'all'
        self.n = n              # N of PrefixTreeN

    @property
    def base(self):
        """Field name without the own/all suffix (as used in env structs)."""
        return self.name[: -len("_" + self.copy)] if self.copy else self.name

    def reps(self):
        """Representative columns of a diagonal field (columns i with eqs[i] == i)."""
        if self.eqs is None:
            return None
        return [i for i, j in enumerate(self.eqs) if i == j]

    def __repr__(self):
        return "<%s>" % self.name


class Rel:
    def __init__(self, name):
        self.name = name
        self.arg_types = []     # camel type names
        self.is_func = None
        self.has_define = False


class Atom:
    def __init__(self, rel, diag, args, age, raw):
        self.rel, self.diag, self.args, self.age, self.raw = rel, diag, args, age, raw

    def key(self):
        return (norm(self.rel), self.diag or (), tuple(self.args))


class Conclusion:
    def __init__(self, rel, args, raw):
        self.rel, self.args, self.raw = rel, args, raw
        if "==" in rel:
            self.kind, self.target = "eq", rel.split("==")[0]
        elif rel.endswith("Def"):
            self.kind, self.target = "def", rel[:-3]
        else:
            self.kind, self.target = "rel", rel


class Routine:
    def __init__(self, fn, header_lines):
        self.fn = fn
        self.name = fn["n"]
        self.header = header_lines
        self.rule_name = None
        self.atoms = []
        self.concls = []
        self._parse_header()

    ATOM_RE = re.compile(r"^- (?P<rel>[^\(\[]+)(?:\[diag=(?P<diag>[\d,]+)\])?\((?P<args>[^)]*)\) \[(?P<age>new|old|all)\]$")
    CONCL_RE = re.compile(r"^- (?P<rel>[^\(]+)\((?P<args>[^)]*)\)$")

    def _parse_header(self):
        mode = None
        for ln in self.header:
            ln = ln.strip()
            if ln.startswith("rule ") and ln.endswith(":"):
                self.rule_name = ln[5:-1]
            elif ln == "if:":
                mode = "if"
            elif ln == "then:":
                mode = "then"
            elif ln.startswith("- "):
                if mode == "if":
                    m = self.ATOM_RE.match(ln)
                    if not m:
                        raise AnchorError("premise line of flat-rule comment not recognised: %r" % ln)
                    args = [a.strip() for a in m.group("args").split(",") if a.strip()]
                    diag = tuple(int(x) for x in m.group("diag").split(",")) if m.group("diag") else None
                    self.atoms.append(Atom(m.group("rel").strip(), diag, args, m.group("age"), ln))
                elif mode == "then":
                    m = self.CONCL_RE.match(ln)
                    if not m:
                        raise AnchorError("conclusion line of flat-rule comment not recognised: %r" % ln)
                    args = [a.strip() for a in m.group("args").split(",") if a.strip()]
                    self.concls.append(Conclusion(m.group("rel").strip(), args, ln))
                else:
                    raise AnchorError("flat-rule comment line outside if/then: %r" % ln)
            elif ln == "":
                continue
            else:
                raise AnchorError("flat-rule comment line not recognised: %r" % ln)
        if self.rule_name is None:
            raise AnchorError("routine %s has no flat-rule header comment" % self.name)


class RuleModule:
    """The code of one rule group: env struct, routines, exported function."""

    def __init__(self, name, items, text_lines, where):
        self.name = name
        self.where = where
        self.items = items
        self.env = None          # structdef node
        self.routines = []
        self.export = None       # fn node
        for it in items:
            k = kind(it)
            if k == "structdef" and it["n"].endswith("Env"):
                if self.env is not None:
                    raise AnchorError("two env structs in rule module %s" % name)
                self.env = it
            elif k == "fn":
                if any("no_mangle" in a for a in it["attrs"]):
                    if self.export is not None:
                        raise AnchorError("two exported functions in rule module %s" % name)
                    self.export = it
                else:
                    self.routines.append(Routine(it, header_comment(text_lines, it["ln"])))
            elif k == "use":
                continue
            else:
                raise AnchorError("unexpected item %s in rule module %s" % (k, name))
        if self.env is None or self.export is None:
            raise AnchorError("rule module %s lacks env struct or exported function" % name)

    def env_fields(self):
        return [(f["n"], nospace(f["t"])) for f in self.env["fields"] if f["n"] != "phantom"]


def header_comment(lines, fn_line):
    """Comment lines directly above line number `fn_line` (1-based), without the leading `// `."""
    out = []
    i = fn_line - 2
    while i >= 0:
        s = lines[i].strip()
        if s.startswith("//"):
            out.append(s[2:].strip() if not s.startswith("// ") else s[3:])
            i -= 1
        elif s.startswith("#["):
            i -= 1
        else:
            break
    out.reverse()
    return out


class Model:
    def __init__(self, path, tree, text):
        if "error" in tree:
            raise AnchorError("emitted file does not parse: %s: %s" % (path, tree["error"]))
        self.path = path
        self.tree = tree
        self.lines = text.split("\n")
        self.items = tree["items"]
        self.digest_line = self.lines[-1] if self.lines and self.lines[-1].startswith("// DIGEST: ") else None
        self._parse()

    # ------------------------------------------------------------------
    def _parse(self):
        items = self.items
        # the model struct is the target of `type Model = X;`
        alias = [it for it in items if kind(it) == "typealias" and it["n"] == "Model"]
        if len(alias) != 1:
            raise AnchorError("expected exactly one `type Model = ..;` in %s" % self.path)
        self.name = nospace(alias[0]["t"])
        structs = {it["n"]: it for it in items if kind(it) == "structdef"}
        if self.name not in structs or "ModelDelta" not in structs:
            raise AnchorError("model struct or ModelDelta missing in %s" % self.path)
        self.struct = structs[self.name]
        self.delta_struct = structs["ModelDelta"]
        self.structs = structs
        self.enums = {it["n"]: it for it in items if kind(it) == "enumdef"}
        self.consts = {it["n"]: it for it in items if kind(it) == "const"}
        impls = [it for it in items if kind(it) == "impl" and it["trait"] is None]
        mi = [it for it in impls if nospace(it["ty"]) == self.name]
        di = [it for it in impls if nospace(it["ty"]) == "ModelDelta"]
        if len(mi) != 1 or len(di) != 1:
            raise AnchorError("expected one inherent impl each for %s and ModelDelta" % self.name)
        self.fns = {}
        for f in mi[0]["items"]:
            if kind(f) == "fn":
                if f["n"] in self.fns:
                    raise AnchorError("function %s emitted twice" % f["n"])
                self.fns[f["n"]] = f
        self.delta_fns = {f["n"]: f for f in di[0]["items"] if kind(f) == "fn"}

        # types: <t>_equalities: Unification<T>
        self.types = {}      # snake -> camel
        fields = [(f["n"], nospace(f["t"])) for f in self.struct["fields"]]
        self.field_types = dict(fields)
        if len(self.field_types) != len(fields):
            raise AnchorError("duplicate field in model struct")
        for n, t in fields:
            if n.endswith("_equalities") and t.startswith("Unification<"):
                self.types[n[: -len("_equalities")]] = t[len("Unification<"):-1]
        for ts, tc in self.types.items():
            if self.field_types.get(ts + "_weights") != "Vec<usize>" or self.field_types.get(ts + "_uprooted") != "Vec<%s>" % tc:
                raise AnchorError("type %s lacks weights/uprooted fields" % ts)

        # relations: insert_<rel> functions
        self.rels = {}
        for fname, f in self.fns.items():
            if fname.startswith("insert_"):
                r = Rel(fname[len("insert_"):])
                for p in f["params"]:
                    if kind(p) == "param":
                        r.arg_types.append(nospace(p["t"]))
                self.rels[r.name] = r
        for r in self.rels.values():
            q = self.fns.get(r.name)
            if q is None:
                raise AnchorError("relation %s has no query function" % r.name)
            ret = nospace(q["ret"])
            r.is_func = ret.startswith("Option<")
            if not r.is_func and ret != "bool":
                raise AnchorError("query function %s has unexpected return type %s" % (r.name, ret))
            r.has_define = ("define_" + r.name) in self.fns

        # index fields
        self.index_fields = []
        self.elem_index = {}
        self.other_fields = []
        for n, t in fields:
            m = PT_RE.match(t)
            if m:
                fm = FIELD_RE.match(n)
                if not fm:
                    raise AnchorError("index field name not recognised: %s" % n)
                eqs = tuple(int(x) for x in fm.group("eqs").split("_")) if fm.group("eqs") else None
                order = tuple(int(x) for x in fm.group("order").split("_")) if fm.group("order") else ()
                f = IndexField(n, fm.group("rel"), fm.group("age"), eqs, order, fm.group("copy"), int(m.group(1)))
                if f.rel in self.rels:
                    ar = len(self.rels[f.rel].arg_types)
                    if eqs is None:
                        if f.n != ar or sorted(order) != list(range(ar)):
                            raise AnchorError("index field %s: order/arity do not fit relation arity %d" % (n, ar))
                    else:
                        nrep = len(f.reps())
                        if len(eqs) != ar or f.n != nrep or sorted(order) != list(range(nrep)) or any(eqs[j] > j or eqs[eqs[j]] != eqs[j] for j in range(ar)):
                            raise AnchorError("diagonal index field %s malformed" % n)
                elif f.rel in self.types and eqs is None and order == (0,) and f.n == 1 and f.copy is None:
                    f.is_typeset = True
                else:
                    raise AnchorError("index field %s belongs to no relation or type" % n)
                self.index_fields.append(f)
            elif n.endswith("_element_index"):
                mm = re.match(r"^BTreeMap<u32,Vec<\[u32;(\d+)\]>>$", t)
                if not mm:
                    raise AnchorError("element index %s has unexpected type %s" % (n, t))
                stem = n[: -len("_element_index")]
                hit = None
                for r in self.rels:
                    for ts in self.types:
                        if stem == r + "_" + ts:
                            if hit:
                                raise AnchorError("element index %s is ambiguous" % n)
                            hit = (r, ts)
                if not hit:
                    raise AnchorError("element index %s belongs to no relation/type" % n)
                if int(mm.group(1)) != len(self.rels[hit[0]].arg_types):
                    raise AnchorError("element index %s row width differs from relation arity" % n)
                self.elem_index[hit] = n
            elif n.endswith("_equalities") or n.endswith("_weights") or n.endswith("_uprooted"):
                continue
            elif n == "empty_join_is_dirty":
                if t != "bool":
                    raise AnchorError("empty_join_is_dirty is not bool")
            else:
                self.other_fields.append((n, t))
        self.by_name = {f.name: f for f in self.index_fields}
        self.model_rels = sorted({f.rel for f in self.index_fields if f.copy})

        # ModelDelta vectors
        self.delta = {}
        for f in self.delta_struct["fields"]:
            t = nospace(f["t"])
            m = re.match(r"^Vec<\[u32;(\d+)\]>$", t)
            if not m:
                raise AnchorError("ModelDelta field %s has unexpected type %s" % (f["n"], t))
            self.delta[f["n"]] = int(m.group(1))

        # env structs, extern block, rule modules
        self.env_structs = {it["n"]: it for it in items if kind(it) == "structdef" and it["n"].endswith("Env") and it["n"] not in (self.name,)}
        ext = [it for it in items if kind(it) == "extern"]
        if len(ext) != 1:
            raise AnchorError("expected exactly one extern block")
        self.extern = ext[0]
        self.extern_fns = {}
        for e in ext[0]["items"]:
            d = parse_extern_item(e)
            if d["name"] in self.extern_fns:
                raise AnchorError("extern function %s declared twice" % d["name"])
            self.extern_fns[d["name"]] = d
        self.rule_mods = {}
        for it in items:
            if kind(it) == "mod" and it.get("items") is not None:
                self.rule_mods[it["n"]] = RuleModule(it["n"], it["items"], self.lines, "%s: mod %s" % (self.path, it["n"]))

    # ------------------------------------------------------------------
    def family(self, rel, age=None, copies=None, typeset=False):
        out = []
        for f in self.index_fields:
            if f.rel != rel or f.is_typeset != typeset:
                continue
            if age and f.age != age:
                continue
            if copies is not None and f.copy not in copies:
                continue
            out.append(f)
        return out

    def primary(self, rel, age):
        """Own/plain, non-diagonal members of the given age (candidates for P_age(R))."""
        return [f for f in self.family(rel, age, copies=(None, "own")) if f.eqs is None]

    def typeset(self, ts, age):
        fs = self.family(ts, age, typeset=True)
        if len(fs) != 1:
            raise AnchorError("type %s has %d %s type-set fields" % (ts, len(fs), age))
        return fs[0]

    def where(self, node, fn=None):
        return "%s:%s%s" % (self.path, node.get("ln", "?"), (" " + fn) if fn else "")

    def type_snake_of_camel(self, camel):
        for s, c in self.types.items():
            if c == camel:
                return s
        raise AnchorError("unknown type %s" % camel)


EXT_RE = re.compile(r'#\s*\[\s*link_name\s*=\s*"(?P<link>[^"]+)"\s*\]\s*safe\s+fn\s+(?P<name>\w+)\s*\(\s*env\s*:\s*(?P<env>\w+)\s*\)\s*;')


def parse_extern_item(e):
    if kind(e) == "fverbatim":
        m = EXT_RE.search(e["t"])
        if not m:
            raise AnchorError("extern item not recognised: %s" % e["t"][:120])
        return {"name": m.group("name"), "link": m.group("link"), "env": m.group("env"), "ln": e["ln"]}
    if kind(e) == "ffn":
        link = None
        for a in e["attrs"]:
            m = re.search(r'link_name\s*=\s*"([^"]+)"', a)
            if m:
                link = m.group(1)
        ps = [p for p in e["params"] if kind(p) == "param"]
        if link is None or len(ps) != 1:
            raise AnchorError("extern fn %s lacks link_name or has unexpected parameters" % e["n"])
        return {"name": e["n"], "link": link, "env": nospace(ps[0]["t"]), "ln": e["ln"]}
    raise AnchorError("unexpected extern item kind %s" % kind(e))


def component_module(path, tree, text):
    """RuleModule of one component source file."""
    if "error" in tree:
        raise AnchorError("component file does not parse: %s: %s" % (path, tree["error"]))
    return RuleModule(path.rsplit("/", 1)[-1][:-3], tree["items"], text.split("\n"), path)
