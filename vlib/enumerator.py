"""Bounded-exhaustive family of flat-shaped rules over a fixed signature (thorough tier).

Text generator only: it writes .eql files for the working tree's compiler to translate; the emitted code is then
analysed by the same static rules as every other program, plus T-FLAT, which compares the flat rule printed above
each rule function with the source rule (this module knows the flat form of what it wrote).
"""
import itertools
import json
import os
import random

SIG = """type A;
pred pa(A);
pred pb(A, A);
pred pc(A, A, A);
func f(A) -> A;
func g(A, A) -> A;
func c() -> A;
enum E { Ca(A), Cb(A, A), Cz() }
pred pe(E);
"""

# symbol -> (kind, number of columns of its relation)
SYMS = {"pa": ("pred", 1), "pb": ("pred", 2), "pc": ("pred", 3), "f": ("func", 2), "g": ("func", 3), "c": ("func", 1)}
# symbols that only the match rendering uses (not part of the enumerated premises)
EXTRA_SYMS = {"pe": ("pred", 1), "Ca": ("func", 2), "Cb": ("func", 3), "Cz": ("func", 1)}
VARS = ["x", "y", "z", "w", "u", "v"]


def rgs(n, maxk):
    """Restricted growth strings of length n with at most maxk classes."""
    def rec(prefix, mx):
        if len(prefix) == n:
            yield tuple(prefix)
            return
        for c in range(min(mx + 2, maxk)):
            prefix.append(c)
            yield from rec(prefix, max(mx, c))
            prefix.pop()
    if n == 0:
        yield ()
    else:
        yield from rec([], -1)


def letters(i):
    s = ""
    i += 26 * 26       # at least three letters
    while i:
        s = chr(ord("a") + i % 26) + s
        i //= 26
    return s


class GenRule:
    def __init__(self, idx, atoms, assignment, concl_kind, with_eq):
        self.idx = idx
        self.name = "r" + letters(idx)
        self.atoms = atoms                  # tuple of symbol names
        self.assignment = assignment        # class id per argument position (concatenated)
        self.concl_kind = concl_kind
        self.with_eq = with_eq
        self._build()

    def _build(self):
        # per atom: list of class ids
        pos = 0
        cls_atoms = []
        for a in self.atoms:
            n = SYMS[a][1]
            cls_atoms.append(list(self.assignment[pos:pos + n]))
            pos += n
        classes = sorted(set(self.assignment))
        # optional premise equality between the first two classes
        eq = None
        if self.with_eq and len(classes) >= 2:
            eq = (classes[0], classes[1])
        # conclusion
        kind = self.concl_kind
        first = classes[0]
        second = classes[1] if len(classes) > 1 else classes[0]
        if kind == 2 and len(classes) < 2:
            kind = 0
        if kind == 2 and eq is not None:
            kind = 1
        concl_uses = {0: [first], 1: [first, second], 2: [first, second], 3: [first]}[kind]
        branched = self.idx % 7 == 3 and kind in (0, 1)
        matched = self.idx % 7 == 5 and kind in (0, 1)
        if matched:
            concl_uses = [first, first, second]
        if branched:
            concl_uses = [first, first, first, first, second, first, first, second]
        # occurrence counts decide wildcards
        occ = {}
        for ca in cls_atoms:
            for c in ca:
                occ[c] = occ.get(c, 0) + 1
        for c in concl_uses:
            occ[c] = occ.get(c, 0) + 1
        if eq:
            for c in eq:
                occ[c] = occ.get(c, 0) + 1
        name = {c: VARS[i] for i, c in enumerate(classes)}

        # Surface syntax: every third rule is rendered with nested terms: a function atom whose result is used as an argument of
        # another atom (and nowhere else by name) is written inline, `pa(f(x))` for {f(x, y), pa(y)}. The flat rule is the same.
        flat_premise = [(a, list(ca)) for a, ca in zip(self.atoms, cls_atoms)]
        inline = {}     # result class -> index of the function atom written inline
        self.nested = False
        if self.idx % 3 == 1:
            for i, (a, ca) in enumerate(flat_premise):
                if SYMS[a][0] != "func":
                    continue
                r = ca[-1]
                if r in concl_uses or (eq and r in eq) or r in ca[:-1] or r in inline:
                    continue
                if sum(1 for b, cb in flat_premise if SYMS[b][0] == "func" and cb[-1] == r) != 1:
                    continue
                arg_occ = sum(cb[:(-1 if SYMS[b][0] == "func" else None)].count(r) for j, (b, cb) in enumerate(flat_premise) if j != i)
                if arg_occ == 0:
                    continue
                inline[r] = i
            # no cycles: drop an inline candidate whose arguments (transitively) contain its own result

            def reaches(r, target, seen):
                if r in seen:
                    return False
                seen.add(r)
                if r not in inline:
                    return False
                args = flat_premise[inline[r]][1][:-1]
                return target in args or any(reaches(x, target, seen) for x in args)
            for r in list(inline):
                if reaches(r, r, set()):
                    del inline[r]
            # a term written k times needs named arguments
            for r, i in inline.items():
                k = sum(cb[:(-1 if SYMS[b][0] == "func" else None)].count(r) for j, (b, cb) in enumerate(flat_premise) if j != i)
                if k >= 2:
                    for c in flat_premise[i][1][:-1]:
                        occ[c] = occ.get(c, 0) + (k - 1)
            self.nested = bool(inline)

        def v(c):
            return name[c] if occ[c] > 1 else "_"

        def term(c, depth=0):
            """argument position: the variable, or the inlined function term"""
            if c in inline and depth < 6:
                a, ca = flat_premise[inline[c]]
                return "%s(%s)" % (a, ", ".join(term(x, depth + 1) for x in ca[:-1]))
            return v(c)
        lines = []
        for i, (a, ca) in enumerate(flat_premise):
            kindv, n = SYMS[a]
            if kindv == "pred":
                lines.append("if %s(%s);" % (a, ", ".join(term(c) for c in ca)))
            else:
                res = ca[-1]
                if inline.get(res) == i:
                    continue
                args = ", ".join(term(c) for c in ca[:-1])
                if occ[res] > 1:
                    lines.append("if %s = %s(%s);" % (name[res], a, args))
                else:
                    lines.append("if %s(%s)!;" % (a, args))
        if eq:
            lines.append("if %s = %s;" % (name[eq[0]], name[eq[1]]))
        concl_lines = {0: ["then pa(%s);" % name[first]],
                       1: ["then pb(%s, %s);" % (name[first], name[second])],
                       2: ["then %s = %s;" % (name[first], name[second])],
                       3: ["then n := f(%s)!;" % name[first], "then pa(n);"]}[kind]
        self.matched = False
        if matched:
            # Surface syntax: a match statement over an enum element; each case adds the graph atom of its constructor.
            self.matched = True
            lines += ["if pe(me);", "match me {", "    Ca(ma) => { then pa(ma); }", "    Cb(ma, mb) => { then pb(ma, mb); }",
                      "    Cz() => { then pc(%s, %s, %s); }" % (name[first], name[first], name[second]), "}"]
            self.text = "rule %s {\n    %s\n}\n" % (self.name, "\n    ".join(lines))
            base = flat_premise + [("pe", ["me"])]
            self.stages = (expected_stages(base + [("Ca", ["ma", "me"])], eq, 5, "ma", "ma")
                           + expected_stages(base + [("Cb", ["ma", "mb", "me"])], eq, 6, "ma", "mb")
                           + expected_stages(base + [("Cz", ["me"])], eq, 4, first, second))
            self.branched = False
            return
        self.branched = False
        if branched:
            # Surface syntax: a branch statement with two blocks followed by a statement after the branch. Each block continues
            # the premise matched so far; statements after the branch continue from the premise before the branch.
            self.branched = True
            lines += ["branch {", "    if pb(%s, %s);" % (name[first], name[first]), "    then pa(%s);" % name[first], "} along {",
                      "    then pb(%s, %s);" % (name[first], name[second]), "}", "then pc(%s, %s, %s);" % (name[first], name[first], name[second])]
            self.text = "rule %s {\n    %s\n}\n" % (self.name, "\n    ".join(lines))
            # statements after the branch are applied at the end of every block, with that block's premise
            self.stages = (expected_stages(flat_premise + [("pb", [first, first])], eq, 0, first, second)
                           + expected_stages(flat_premise, eq, 1, first, second)
                           + expected_stages(flat_premise + [("pb", [first, first])], eq, 4, first, second)
                           + expected_stages(flat_premise, eq, 4, first, second))
            return
        lines += concl_lines
        self.text = "rule %s {\n    %s\n}\n" % (self.name, "\n    ".join(lines))
        self.stages = expected_stages(flat_premise, eq, kind, first, second)

    def to_json(self):
        return {"name": self.name, "atoms": list(self.atoms), "assignment": list(self.assignment), "concl_kind": self.concl_kind,
                "with_eq": self.with_eq, "nested": self.nested, "branched": self.branched, "matched": self.matched, "stages": self.stages, "text": self.text}


class _UF:
    def __init__(self):
        self.p = {}

    def find(self, x):
        self.p.setdefault(x, x)
        while self.p[x] != x:
            self.p[x] = self.p[self.p[x]]
            x = self.p[x]
        return x

    def union(self, a, b):
        a, b = self.find(a), self.find(b)
        if a != b:
            if str(b) < str(a):
                a, b = b, a
            self.p[b] = a
            return True
        return False


def _congruence(uf, atoms):
    """Close `uf` under single-valuedness of the function symbols among `atoms`."""
    changed = True
    while changed:
        changed = False
        seen = {}
        for rel, args in atoms:
            if (SYMS.get(rel) or EXTRA_SYMS[rel])[0] != "func":
                continue
            key = (rel, tuple(uf.find(a) for a in args[:-1]))
            r = uf.find(args[-1])
            if key in seen and uf.find(seen[key]) != r:
                if uf.union(seen[key], r):
                    changed = True
            seen[key] = uf.find(r)


def _atom_set(uf, atoms):
    out = []
    for rel, args in atoms:
        t = (rel, tuple(uf.find(a) for a in args))
        if t not in out:
            out.append(t)
    return out


def expected_stages(flat_premise, eq, kind, first, second):
    """Reference flattening of a flat-shaped rule: what the front end must produce, up to renaming.

    The premise is a structure closed under the premise equality and single-valuedness of functions; a then-statement is the
    morphism into the structure extended by its content: tuples already present are not concluded again, equalities are
    concluded for every pair of premise elements the extension identifies (its kernel), `f(x)!` concludes nothing when f(x) is
    already defined."""
    uf = _UF()
    for _rel, args in flat_premise:
        for a in args:
            uf.find(a)
    if eq:
        uf.union(eq[0], eq[1])
    _congruence(uf, flat_premise)
    prem = _atom_set(uf, flat_premise)
    f1 = uf.find(first)
    f2 = uf.find(second)
    stages = []

    def st(premise, concl):
        stages.append({"premise": [[r, list(a)] for r, a in premise], "conclusion": [[r, list(a)] for r, a in concl]})
    if kind == 0:
        c = ("pa", (f1,))
        st(prem, [] if c in prem else [c])
    elif kind == 1:
        c = ("pb", (f1, f2))
        st(prem, [] if c in prem else [c])
    elif kind == 4:
        c = ("pc", (f1, f1, f2))
        st(prem, [] if c in prem else [c])
    elif kind == 5:
        c = ("pa", (f1,))
        st(prem, [] if c in prem else [c])
    elif kind == 6:
        c = ("pb", (f1, f2))
        st(prem, [] if c in prem else [c])
    elif kind == 2:
        uf2 = _UF()
        uf2.p = dict(uf.p)
        uf2.union(f1, f2)
        _congruence(uf2, [(r, list(a)) for r, a in prem])
        els = sorted({a for _r, args in prem for a in args}, key=str)
        pairs = []
        for i, a in enumerate(els):
            for b in els[i + 1:]:
                if uf2.find(a) == uf2.find(b):
                    pairs.append(("A==A", (a, b)))
        st(prem, pairs)
    else:
        existing = [a[1] for r, a in prem if r == "f" and a[0] == f1]
        if existing:
            c = ("pa", (existing[0],))
            st(prem, [] if c in prem else [c])
        else:
            st(prem, [("fDef", (f1,))])
            st(prem + [("f", (f1, "n"))], [("pa", ("n",))])
    return stages


def all_rules(max_vars=4):
    """Generator over the whole family, in a fixed order."""
    idx = 0
    syms = sorted(SYMS)
    small = [s for s in syms if SYMS[s][1] <= 2]
    for natoms in (1, 2, 3):
        pool = syms if natoms <= 2 else small
        for atoms in itertools.combinations_with_replacement(pool, natoms):
            nargs = sum(SYMS[a][1] for a in atoms)
            for asg in rgs(nargs, max_vars):
                yield GenRule(idx, atoms, asg, idx % 4, idx % 5 == 4)
                idx += 1


def family_size(max_vars=4):
    return sum(1 for _ in all_rules(max_vars))


def select(seed, max_small, sample_large):
    """All rules with <= 2 premise atoms (up to max_small) and a seeded sample of the 3-atom rules."""
    small, large = [], []
    for r in all_rules():
        (small if len(r.atoms) <= 2 else large).append(r)
    exhaustive_small = len(small) <= max_small
    if not exhaustive_small:
        rnd = random.Random(seed)
        small = sorted(rnd.sample(small, max_small), key=lambda r: r.idx)
    rnd = random.Random(seed + 1)
    exhaustive_large = len(large) <= sample_large
    if not exhaustive_large:
        picked = sorted(rnd.sample(large, sample_large), key=lambda r: r.idx)
    else:
        picked = large
    return small, picked, {"small_total": len(small) if exhaustive_small else None, "large_total": len(large),
                           "exhaustive_small": exhaustive_small, "exhaustive_large": exhaustive_large}


def write_batches(outdir, rules, batch=120):
    """Writes batch files enum_<k>.eql and a sidecar enum_<k>.json with the expected flat rules. Returns list of paths."""
    os.makedirs(outdir, exist_ok=True)
    paths = []
    for k in range(0, len(rules), batch):
        chunk = rules[k:k + batch]
        name = "enum_" + letters(k // batch)
        p = os.path.join(outdir, name + ".eql")
        with open(p, "w") as f:
            f.write("// generated by /verif/vlib/enumerator.py\n" + SIG + "\n")
            for r in chunk:
                f.write(r.text)
        with open(os.path.join(outdir, name + ".json"), "w") as f:
            json.dump({r.name: r.to_json() for r in chunk}, f)
        paths.append(p)
    return paths
