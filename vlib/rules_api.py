"""T-API, T-ALLOC, T-ENUM over one emitted model."""
import re

from .core import RuleResult
from .emodel import AnchorError, norm
from .rules_struct import expected_row
from .tree import (array_names, expr_str, kind, is_path, mcall, pat_names, self_field, stmt_expr, walk, nospace)


def _params(fn):
    out = []
    for p in fn["params"]:
        if kind(p) == "param":
            pn = p["p"]
            if kind(pn) != "pid":
                raise AnchorError("%s: parameter is not an identifier" % fn["n"])
            out.append((pn["n"], nospace(p["t"])))
    return out


def _row_dot0(e):
    """[arg1.0, arg0.0] -> ['arg1','arg0']"""
    if kind(e) != "array":
        return None
    out = []
    for x in e["e"]:
        if kind(x) == "field" and x["m"] == "0" and kind(x["b"]) == "path":
            out.append(x["b"]["p"])
        else:
            return None
    return out


def _canon_assigns(m, fn, params, res, site):
    """`argK = self.root_T(argK);` for every parameter, before any table access. Returns True if all fine."""
    seen = {}
    first_access = None
    for s in fn["b"]["s"]:
        e = stmt_expr(s)
        if kind(e) == "assign" and kind(e["lhs"]) == "path" and mcall(e["rhs"]) and is_path(e["rhs"]["r"], "self") \
                and e["rhs"]["m"].startswith("root_") and len(e["rhs"]["a"]) == 1 and is_path(e["rhs"]["a"][0], e["lhs"]["p"]):
            if first_access is None:
                seen[e["lhs"]["p"]] = e["rhs"]["m"][5:]
            continue
        touches = any(self_field(x) in m.by_name for x in walk(s) if self_field(x))
        if touches and first_access is None:
            first_access = s
    good = True
    for name, typ in params:
        ts = m.type_snake_of_camel(typ)
        if seen.get(name) == ts:
            res.ok()
        else:
            good = False
            res.bad("T-API:query:arg-not-rooted", m.where(fn, site), "%s: argument %s is not mapped through root_%s before the first index access" % (site, name, ts))
    return good


def rule_api(m):
    res = RuleResult("T-API")
    # ---- predicates and function evaluation
    for rname, rel in m.rels.items():
        fn = m.fns[rname]
        site = rname
        params = _params(fn)
        if [t for _, t in params] != (rel.arg_types[:-1] if rel.is_func else rel.arg_types):
            res.bad("T-API:query:signature", m.where(fn, site), "%s: parameter types %s do not fit the relation" % (site, params))
            continue
        _canon_assigns(m, fn, params, res, site)
        col_var = [p[0] for p in params]
        if not rel.is_func:
            # false || (&self.F).contains([..]) || ..
            ages = set()
            lookups = [c for c in walk(fn["b"]) if mcall(c, "contains")]
            for c in lookups:
                f = m.by_name.get(self_field(c["r"]) or "")
                row = _row_dot0(c["a"][0]) if len(c["a"]) == 1 else None
                if f is None or f.rel != rname or f.is_typeset or f.eqs is not None or f.copy == "own":
                    res.bad("T-API:pred:lookup-field", m.where(c, site), "%s looks up %s (needs a plain or `all` full index of %s)" % (site, expr_str(c["r"]), rname))
                    continue
                if row != expected_row(f, col_var):
                    res.bad("T-API:pred:lookup-row", m.where(c, site), "%s: row %s looked up in %s, expected %s" % (site, row, f.name, expected_row(f, col_var)))
                    continue
                ages.add(f.age)
                res.ok()
            for age in ("new", "old"):
                if age in ages:
                    res.ok()
                else:
                    res.bad("T-API:pred:age-missing:" + age, m.where(fn, site), "%s ignores %s tuples" % (site, age))
        else:
            closures = [c for c in walk(fn["b"]) if mcall(c, "or_else") and len(c["a"]) == 1 and kind(c["a"][0]) == "closure"]
            ages = set()
            for oc in closures:
                body = oc["a"][0]["b"]
                if kind(body) != "block":
                    res.bad("T-API:eval:closure-shape", m.where(oc, site), "%s: lookup closure not a block" % site)
                    continue
                field = None
                gets = []
                final = None
                good = True
                for s in body["s"]:
                    if kind(s) == "let":
                        e = s["e"]
                        pn = s["p"]
                        if self_field(e) and kind(pn) == "pid":
                            field = self_field(e)
                        elif kind(e) == "try" and mcall(e["e"], "get") and len(e["e"]["a"]) == 1:
                            a = e["e"]["a"][0]
                            if kind(a) == "field" and a["m"] == "0" and kind(a["b"]) == "path":
                                gets.append(a["b"]["p"])
                            else:
                                good = False
                        elif kind(e) == "try" and mcall(e["e"], "next") and pat_names(pn) and len(pat_names(pn)) == 1:
                            final = pat_names(pn)[0]
                        else:
                            good = False
                    else:
                        e = stmt_expr(s)
                        if not (kind(e) == "call" and is_path(e["f"], "Some") and len(e["a"]) == 1 and is_path(e["a"][0], final or "")):
                            good = False
                f = m.by_name.get(field or "")
                if not good or f is None:
                    res.bad("T-API:eval:closure-shape", m.where(oc, site), "%s: lookup closure not recognised" % site)
                    continue
                n = len(col_var)
                if f.rel != rname or f.eqs is not None or f.copy == "own" or f.is_typeset:
                    res.bad("T-API:eval:lookup-field", m.where(oc, site), "%s evaluates through %s" % (site, f.name))
                    continue
                if list(f.order[:-1]) != [col_var.index(g) if g in col_var else -1 for g in gets] or f.order[-1] != n:
                    res.bad("T-API:eval:lookup-order", m.where(oc, site), "%s: restricts %s by %s, index order is %s" % (site, f.name, gets, list(f.order)))
                    continue
                ages.add(f.age)
                res.ok()
            for age in ("new", "old"):
                if age in ages:
                    res.ok()
                else:
                    res.bad("T-API:eval:age-missing:" + age, m.where(fn, site), "%s ignores %s tuples" % (site, age))
        # ---- iter_<rel>
        it = m.fns.get("iter_" + rname)
        if it is None:
            if len(rel.arg_types) == 0:
                continue
            res.bad("T-API:iter:missing", m.path, "relation %s has no iterator" % rname)
            continue
        site = "iter_" + rname
        lets = {}
        for s in it["b"]["s"]:
            if kind(s) == "let" and kind(s["p"]) == "pid":
                lets[s["p"]["n"]] = s["e"]
        chained = []
        tail = [stmt_expr(s) for s in it["b"]["s"] if stmt_expr(s) is not None]
        if len(tail) != 1:
            res.bad("T-API:iter:shape", m.where(it, site), "%s: body not lets followed by one chain expression" % site)
            continue
        e = tail[0]
        while mcall(e, "chain"):
            a = e["a"][0]
            chained.append(a["p"] if kind(a) == "path" else None)
            e = e["r"]
        if expr_str(e) != "[].into_iter()":
            res.bad("T-API:iter:shape", m.where(it, site), "%s: chain does not start from an empty iterator" % site)
            continue
        ages = []
        for name in chained:
            le = lets.get(name)
            # (&self.F).iter().map(|[argO..]| row)
            if not (mcall(le, "map") and mcall(le["r"], "iter") and self_field(le["r"]["r"]) and kind(le["a"][0]) == "closure"):
                res.bad("T-API:iter:shape", m.where(it, site), "%s: chained iterator %s not recognised" % (site, name))
                continue
            f = m.by_name.get(self_field(le["r"]["r"]))
            cl = le["a"][0]
            pv = pat_names(cl["params"][0]) if cl["params"] else None
            body = cl["b"]
            if kind(body) == "block" and len(body["s"]) == 1:
                body = stmt_expr(body["s"][0])
            comps = body["e"] if kind(body) == "tuple" else [body]
            rowv = []
            for c in comps:
                if kind(c) == "call" and len(c["a"]) == 1 and kind(c["a"][0]) == "path" and kind(c["f"]) == "path" and c["f"]["p"].endswith("::from"):
                    rowv.append((c["f"]["p"][:-6], c["a"][0]["p"]))
                else:
                    rowv.append((None, None))
            if f is None or f.rel != rname or f.is_typeset or f.eqs is not None or f.copy == "own":
                res.bad("T-API:iter:field", m.where(le, site), "%s iterates %s" % (site, expr_str(le["r"]["r"])))
                continue
            ok = pv is not None and len(pv) == len(f.order) and len(set(pv)) == len(pv) and len(rowv) == len(f.order) \
                and all(rowv[f.order[j]][1] == pv[j] for j in range(len(pv))) and [t for t, _ in rowv] == rel.arg_types
            if not ok:
                res.bad("T-API:iter:permutation", m.where(le, site), "%s: rows of %s (order %s) unpacked as %s and returned as %s" % (site, f.name, list(f.order), pv, rowv))
                continue
            ages.append(f.age)
            res.ok()
        if sorted(ages) == ["new", "old"]:
            res.ok()
        else:
            res.bad("T-API:iter:ages=%s" % "+".join(sorted(ages)), m.where(it, site), "%s chains indices of ages %s (expected one new and one old)" % (site, ages))
    # ---- per type
    for ts, tc in m.types.items():
        _api_type(m, res, ts, tc)
    # ---- define_
    for rname, rel in m.rels.items():
        if rel.has_define:
            _api_define(m, res, rname, rel)
    res.sample({"model": m.name, "relations": len(m.rels), "types": len(m.types)})
    return res


def _api_type(m, res, ts, tc):
    # root_T
    fn = m.fns.get("root_" + ts)
    site = "root_" + ts
    if fn is None:
        raise AnchorError("no root_%s" % ts)
    body = [stmt_expr(s) for s in fn["b"]["s"]]
    ok = False
    pname = (_params(fn) or [("el", "")])[0][0]
    if len(body) == 1 and kind(body[0]) == "if" and body[0]["e"] is not None:
        c = body[0]["c"]
        t = body[0]["t"]["s"]
        el = body[0]["e"]["s"] if kind(body[0]["e"]) == "block" else []
        if kind(c) == "bin" and len(t) == 1 and len(el) == 1:
            lens = "self.%s_equalities.len()" % ts
            idx = "%s.0 as usize" % pname
            lhs, rhs, op = expr_str(c["lhs"]), expr_str(c["rhs"]), c["op"]
            te, ee = expr_str(stmt_expr(t[0])), expr_str(stmt_expr(el[0]))
            root = "self.%s_equalities.root_const(%s)" % (ts, pname)
            # out of bounds: idx >= len  /  len <= idx ; in bounds: idx < len / len > idx
            oob = (lhs == idx and rhs == lens and op == ">=") or (lhs == lens and rhs == idx and op == "<=")
            inb = (lhs == idx and rhs == lens and op == "<") or (lhs == lens and rhs == idx and op == ">")
            if (oob and te == pname and ee == root) or (inb and te == root and ee == pname):
                ok = True
    if ok:
        res.ok()
    else:
        res.bad("T-API:root:shape", m.where(fn, site), "%s is not `if out of bounds { el } else { root_const(el) }`" % site)
    # are_equal_T
    fn = m.fns.get("are_equal_" + ts)
    site = "are_equal_" + ts
    if fn is None:
        raise AnchorError("no are_equal_%s" % ts)
    ps = [p[0] for p in _params(fn)]
    body = [stmt_expr(s) for s in fn["b"]["s"]]
    ok = len(body) == 1 and kind(body[0]) == "bin" and body[0]["op"] == "==" and len(ps) == 2 and \
        sorted([expr_str(body[0]["lhs"]), expr_str(body[0]["rhs"])]) == sorted(["self.root_%s(%s)" % (ts, p) for p in ps])
    if ok:
        res.ok()
    else:
        res.bad("T-API:are_equal:shape", m.where(fn, site), "%s does not compare the roots of its two arguments" % site)
    # iter_T
    fn = m.fns.get("iter_" + ts)
    site = "iter_" + ts
    if fn is None or ts in m.rels:
        if fn is None:
            raise AnchorError("no iter_%s" % ts)
    else:
        body = [stmt_expr(s) for s in fn["b"]["s"]]
        e = body[0] if len(body) == 1 else None
        ages = []
        good = mcall(e, "map")
        if good:
            e = e["r"]
            while mcall(e, "chain"):
                a = e["a"][0]
                f = m.by_name.get(self_field(a["r"]) or "") if mcall(a, "iter") else None
                if f is None or not f.is_typeset or f.rel != ts:
                    good = False
                else:
                    ages.append(f.age)
                e = e["r"]
            good = good and expr_str(e) == "[].into_iter()"
        if good and sorted(ages) == ["new", "old"]:
            res.ok()
        else:
            res.bad("T-API:iter_type:ages=%s" % "+".join(sorted(ages)), m.where(fn, site), "%s does not chain exactly the new and the old type set" % site)
    # equate_T
    fn = m.fns.get("equate_" + ts)
    site = "equate_" + ts
    if fn is None:
        raise AnchorError("no equate_%s" % ts)
    ps = [p[0] for p in _params(fn)]
    rooted = set()
    early = False
    union = None
    removed = []
    pushed = []
    pair = None
    for s in fn["b"]["s"]:
        if kind(s) == "let":
            pn = pat_names(s["p"])
            if pn and len(pn) == 2 and kind(s["e"]) == "if":
                br = []
                for blk in (s["e"]["t"], s["e"]["e"]):
                    if kind(blk) == "block" and len(blk["s"]) == 1 and kind(stmt_expr(blk["s"][0])) == "tuple":
                        br.append([expr_str(x) for x in stmt_expr(blk["s"][0])["e"]])
                if len(br) == 2 and sorted(br[0]) == sorted(ps) and sorted(br[1]) == sorted(ps) and br[0] != br[1]:
                    pair = pn
            continue
        e = stmt_expr(s)
        if kind(e) == "assign" and kind(e["lhs"]) == "path" and expr_str(e["rhs"]) == "self.%s_equalities.root(%s)" % (ts, e["lhs"]["p"]):
            rooted.add(e["lhs"]["p"])
        elif kind(e) == "if" and kind(e["c"]) == "bin" and e["c"]["op"] == "==" and sorted([expr_str(e["c"]["lhs"]), expr_str(e["c"]["rhs"])]) == sorted(ps) \
                and len(e["t"]["s"]) == 1 and kind(stmt_expr(e["t"]["s"][0])) == "return":
            early = rooted == set(ps)
        elif mcall(e, "union_roots_into") and self_field(e["r"]) == ts + "_equalities" and len(e["a"]) == 2:
            union = (expr_str(e["a"][0]), expr_str(e["a"][1]))
        elif mcall(e, "remove") and self_field(e["r"]) in m.by_name:
            removed.append((self_field(e["r"]), expr_str(e["a"][0])))
        elif mcall(e, "push") and self_field(e["r"]):
            pushed.append((self_field(e["r"]), expr_str(e["a"][0])))
        elif any(self_field(x) in m.by_name or (self_field(x) or "").endswith("_uprooted") for x in walk(s) if self_field(x)):
            res.bad("T-API:equate:unclassified-table-access", m.where(s, site), "%s: unrecognised statement touching tables" % site)
    if rooted == set(ps) and len(ps) == 2:
        res.ok()
    else:
        res.bad("T-API:equate:args-not-rooted", m.where(fn, site), "%s does not take the roots of both arguments" % site)
    if early:
        res.ok()
    else:
        res.bad("T-API:equate:no-early-return", m.where(fn, site), "%s does not return early when both roots coincide" % site)
    if union and pair and set(union) == set(pair) and union[0] != union[1]:
        child = union[0]
        res.ok()
        want_removed = sorted([(m.typeset(ts, "new").name, "[%s.0]" % child), (m.typeset(ts, "old").name, "[%s.0]" % child)])
        if sorted(removed) == want_removed:
            res.ok()
        else:
            res.bad("T-API:equate:typeset-removal", m.where(fn, site), "%s removes %s, expected %s" % (site, sorted(removed), want_removed))
        if pushed == [(ts + "_uprooted", child)]:
            res.ok()
        else:
            res.bad("T-API:equate:uprooted-push", m.where(fn, site), "%s pushes %s, expected the merged element %s to %s_uprooted" % (site, pushed, child, ts))
    else:
        res.bad("T-API:equate:union", m.where(fn, site), "%s does not union one root into the other (union=%s, pair=%s)" % (site, union, pair))
    # new_T_internal
    fn = m.fns.get("new_%s_internal" % ts)
    site = "new_%s_internal" % ts
    if fn is None:
        raise AnchorError("no %s" % site)
    stmts_ = fn["b"]["s"]
    lets = {s_["p"]["n"]: s_["e"] for s_ in stmts_ if kind(s_) == "let" and kind(s_["p"]) == "pid" and s_["e"] is not None}
    lenvars = {k for k, e_ in lets.items() if expr_str(e_) == "self.%s_equalities.len()" % ts}
    # the new id: a local computed from the old length only (u32::try_from(len).unwrap(), `len as u32`, ..)
    elvars = {k for k, e_ in lets.items() if k not in lenvars and any(is_path(x, lv) for lv in lenvars for x in walk(e_))
              and not any(self_field(x) for x in walk(e_))}
    grow = False
    for x in walk(fn["b"]):
        if mcall(x, "increase_size_to") and self_field(x["r"]) == ts + "_equalities" and len(x["a"]) == 1:
            a_ = x["a"][0]
            if kind(a_) == "bin" and a_["op"] == "+":
                sides = [expr_str(a_["lhs"]), expr_str(a_["rhs"])]
                if "1" in sides and any(sd in lenvars for sd in sides):
                    grow = True
    ins = any(mcall(x, "insert") and self_field(x["r"]) == m.typeset(ts, "new").name and array_names(x["a"][0]) is not None
              and len(array_names(x["a"][0])) == 1 and array_names(x["a"][0])[0] in elvars for x in walk(fn["b"]) if mcall(x, "insert") and x["a"])
    wpush = any(mcall(x, "push") and self_field(x["r"]) == ts + "_weights" for x in walk(fn["b"]))
    last = stmt_expr(stmts_[-1]) if stmts_ else None
    ret = last is not None and any(is_path(x, ev) for ev in elvars for x in walk(last)) and (kind(last) in ("call", "mcall", "path", "struct"))
    okn = bool(lenvars) and bool(elvars) and grow and ins and wpush and ret
    if okn:
        res.ok()
    else:
        res.bad("T-API:new_internal:shape", m.where(fn, site), "%s does not allocate id = len, grow the union-find by one, insert into the new type set and push a weight" % site)
    writes_old = [x for x in walk(fn["b"]) if mcall(x, "insert") and (m.by_name.get(self_field(x["r"]) or "") is not None) and m.by_name[self_field(x["r"])].age == "old"]
    if writes_old:
        res.bad("T-API:new_internal:writes-old", m.where(writes_old[0], site), "%s writes an old index" % site)


def _api_define(m, res, rname, rel):
    fn = m.fns["define_" + rname]
    site = "define_" + rname
    ps = [p[0] for p in _params(fn)]
    body = [stmt_expr(s) for s in fn["b"]["s"]]
    ok = False
    if len(body) == 1 and kind(body[0]) == "match":
        mt = body[0]
        if expr_str(mt["e"]) == "self.%s(%s)" % (rname, ", ".join(ps)) and len(mt["arms"]) == 2:
            some = [a for a in mt["arms"] if kind(a["p"]) == "ptstruct" and a["p"]["p"] == "Some"]
            none = [a for a in mt["arms"] if (kind(a["p"]) in ("ppath", "pid")) and (a["p"].get("p") == "None" or a["p"].get("n") == "None")]
            if len(some) == 1 and len(none) == 1:
                sv = pat_names({"k": "ptuple", "e": some[0]["p"]["e"]})
                some_ok = sv and len(sv) == 1 and expr_str(some[0]["b"]) == sv[0]
                nb = none[0]["b"]
                stmts = nb["s"] if kind(nb) == "block" else []
                cod = m.type_snake_of_camel(rel.arg_types[-1])
                newvar = None
                inserted = False
                ret = None
                for s in stmts:
                    if kind(s) == "let" and kind(s["p"]) == "pid" and mcall(s["e"]) and is_path(s["e"]["r"], "self") and s["e"]["m"] == "new_%s_internal" % cod:
                        newvar = s["p"]["n"]
                    elif kind(s) == "let":
                        continue
                    else:
                        e = stmt_expr(s)
                        if mcall(e) and is_path(e["r"], "self") and e["m"] == "insert_" + rname:
                            inserted = newvar is not None and [expr_str(a) for a in e["a"]] == ps + [newvar]
                        elif e is not None:
                            ret = expr_str(e)
                ok = some_ok and newvar is not None and inserted and ret == newvar
                # allocation only in the None arm
                if any(mcall(x) and x["m"].endswith("_internal") for x in walk(some[0]["b"])):
                    ok = False
    if ok:
        res.ok()
    else:
        res.bad("T-API:define:shape", m.where(fn, site), "%s is not `match self.%s(args) { Some(r) => r, None => { new element; insert; } }`" % (site, rname))


# ---------------------------------------------------------------------------

def _callees(fn, recv_names):
    out = set()
    for x in walk(fn["b"]):
        if mcall(x) and kind(x["r"]) == "path" and x["r"]["p"] in recv_names:
            out.add(x["m"])
    return out


def rule_alloc(m, source_text, rule_mods):
    """T-ALLOC: who may allocate elements."""
    res = RuleResult("T-ALLOC")
    graph = {}
    for name, fn in m.fns.items():
        callees = _callees(fn, ("self", "model"))
        # delta.apply_X(self) -> ModelDelta::apply_X
        for x in walk(fn["b"]):
            if mcall(x) and x["m"].startswith("apply_") and x["m"] in m.delta_fns:
                callees.add("ModelDelta::" + x["m"])
        graph[name] = callees
    for name, fn in m.delta_fns.items():
        graph["ModelDelta::" + name] = _callees(fn, ("model", "self"))
    callers = {}
    for a, cs in graph.items():
        for c in cs:
            callers.setdefault(c, set()).add(a)
    for ts, tc in m.types.items():
        internal = "new_%s_internal" % ts
        fn = m.fns[internal]
        if fn["vis"].strip():
            res.bad("T-ALLOC:new_internal:public", m.where(fn, internal), "%s is %s" % (internal, fn["vis"]))
        else:
            res.ok()
        want = set()
        if "new_" + ts in m.fns and not (tc + "Case") in m.enums:
            want.add("new_" + ts)
        for rname, rel in m.rels.items():
            if rel.has_define and rel.arg_types[-1] == tc:
                want.add("define_" + rname)
        got = callers.get(internal, set())
        extra = got - want
        if extra:
            res.bad("T-ALLOC:new_internal:extra-caller", m.where(fn, internal), "%s is called by %s (allowed: new_%s and define_ of functions into %s)" % (internal, sorted(extra), ts, tc))
        else:
            res.ok()
        # enum types: no public element constructor without a case
        if (tc + "Case") in m.enums:
            nf = m.fns.get("new_" + ts)
            if nf is not None and internal in graph["new_" + ts]:
                res.bad("T-ALLOC:enum:new-without-ctor", m.where(nf, "new_" + ts), "new_%s allocates an enum element without a constructor" % ts)
            else:
                res.ok()
    # reachable from close_until without passing apply_func_defs: no allocation
    seen = set()
    stack = ["close_until"]
    while stack:
        n = stack.pop()
        if n in seen or n == "ModelDelta::apply_func_defs":
            continue
        seen.add(n)
        for c in graph.get(n, ()):
            stack.append(c)
    alloc = sorted(n for n in seen if re.match(r"^new_.*_internal$", n))
    if alloc:
        res.bad("T-ALLOC:close_until:alloc-outside-func-defs", m.where(m.fns["close_until"], "close_until"),
                "close_until reaches %s without passing through apply_func_defs" % alloc)
    else:
        res.ok()
        res.count("callgraph_nodes", len(seen))
    # surjective theories push no definitions
    src = re.sub(r"//[^\n]*", "", source_text)
    has_bang = re.search(r"\bthen\b[^;{}]*!", src) is not None
    def_pushes = []
    for mod in rule_mods:
        for rt in mod.routines:
            for x in walk(rt.fn["b"]):
                if mcall(x, "push") and kind(x["r"]) == "field" and x["r"]["m"].endswith("_def") and x["r"]["m"].startswith("new_"):
                    def_pushes.append((mod.name, rt.name, x))
    if not has_bang:
        if def_pushes:
            res.bad("T-ALLOC:surjective-theory:def-push", m.where(def_pushes[0][2], def_pushes[0][1]),
                    "the source has no `!` in a then-statement but routine %s requests a function definition" % def_pushes[0][1])
        else:
            res.ok()
            res.count("surjective_theories")
    else:
        res.count("theories_with_bang")
    res.sample({"model": m.name, "has_bang": has_bang, "def_pushes": len(def_pushes), "reachable_from_close_until": len(seen)})
    return res


def rule_enum(m):
    res = RuleResult("T-ENUM")
    for ename, en in m.enums.items():
        if not ename.endswith("Case"):
            continue
        tc = ename[:-4]
        if tc not in m.types.values():
            raise AnchorError("enum %s has no element type" % ename)
        ts = m.type_snake_of_camel(tc)
        variants = [v["n"] for v in en["variants"]]
        vsnake = {}
        for v in variants:
            hits = [r for r in m.rels if norm(r) == norm(v)]
            if len(hits) != 1:
                raise AnchorError("constructor %s of %s matches %d relations" % (v, ename, len(hits)))
            vsnake[v] = hits[0]
        # new_e
        fn = m.fns.get("new_" + ts)
        site = "new_" + ts
        if fn is None:
            res.bad("T-ENUM:new:missing", m.path, "enum %s has no new_%s" % (tc, ts))
        else:
            ps = _params(fn)
            mt = [x for x in walk(fn["b"]) if kind(x) == "match"]
            arms = {}
            if len(ps) == 1 and ps[0][1] == ename and len(mt) == 1 and is_path(mt[0]["e"], ps[0][0]):
                for a in mt[0]["arms"]:
                    if kind(a["p"]) == "ptstruct" and a["p"]["p"].startswith(ename + "::"):
                        v = a["p"]["p"].split("::")[1]
                        args = pat_names({"k": "ptuple", "e": a["p"]["e"]})
                        b = a["b"]
                        if kind(b) == "block" and len(b["s"]) == 1:
                            b = stmt_expr(b["s"][0])
                        arms[v] = (args, expr_str(b))
            if sorted(arms) == sorted(variants):
                res.ok()
                for v, (args, call) in arms.items():
                    want = "self.define_%s(%s)" % (vsnake[v], ", ".join(args or []))
                    if call == want and len(set(args or [])) == len(args or []):
                        res.ok()
                    else:
                        res.bad("T-ENUM:new:arm-call", m.where(fn, site), "%s: case %s is created through `%s`, expected `%s`" % (site, v, call, want))
            else:
                res.bad("T-ENUM:new:arms", m.where(fn, site), "%s has arms %s, the enum has %s" % (site, sorted(arms), sorted(variants)))
        # e_cases
        fn = m.fns.get(ts + "_cases")
        site = ts + "_cases"
        if fn is None:
            res.bad("T-ENUM:cases:missing", m.path, "enum %s has no %s" % (tc, site))
        else:
            ps = _params(fn)
            rooted = any(kind(s) == "let" and kind(s["p"]) == "pid" and s["p"]["n"] == ps[0][0] and
                         expr_str(s["e"]) in ("self.%s_equalities.root_const(%s)" % (ts, ps[0][0]), "self.root_%s(%s)" % (ts, ps[0][0]))
                         for s in fn["b"]["s"]) if ps else False
            if rooted:
                res.ok()
            else:
                res.bad("T-ENUM:cases:arg-not-rooted", m.where(fn, site), "%s does not canonicalise its argument" % site)
            chained = {}
            tail = [stmt_expr(s) for s in fn["b"]["s"] if stmt_expr(s) is not None]
            e = tail[-1] if tail else None
            good = True
            while mcall(e, "chain"):
                a = e["a"][0]
                # self.iter_v().filter_map(move |(el0, .., elN)| { if el == elN { Some(ECase::V(el0..)) } else { None } })
                ok1 = mcall(a, "filter_map") and mcall(a["r"]) and is_path(a["r"]["r"], "self") and a["r"]["m"].startswith("iter_") and kind(a["a"][0]) == "closure"
                if not ok1:
                    good = False
                    break
                it = a["r"]["m"][5:]
                cl = a["a"][0]
                pv = pat_names(cl["params"][0]) if cl["params"] else None
                ifs = [x for x in walk(cl["b"]) if kind(x) == "if"]
                some = [x for x in walk(cl["b"]) if kind(x) == "call" and is_path(x["f"], "Some")]
                v = None
                if pv and len(ifs) == 1 and len(some) == 1 and kind(ifs[0]["c"]) == "bin" and ifs[0]["c"]["op"] == "==":
                    cmpv = sorted([expr_str(ifs[0]["c"]["lhs"]), expr_str(ifs[0]["c"]["rhs"])])
                    inner = some[0]["a"][0]
                    if kind(inner) == "call" and kind(inner["f"]) == "path" and inner["f"]["p"].startswith(ename + "::"):
                        v = inner["f"]["p"].split("::")[1]
                        cargs = [expr_str(x) for x in inner["a"]]
                    elif kind(inner) == "path" and inner["p"].startswith(ename + "::"):
                        v = inner["p"].split("::")[1]
                        cargs = []
                    if v is not None:
                        if cmpv == sorted([ps[0][0], pv[-1]]) and cargs == pv[:-1] and vsnake.get(v) == it and len(set(pv)) == len(pv):
                            chained[v] = chained.get(v, 0) + 1
                        else:
                            res.bad("T-ENUM:cases:ctor-scan", m.where(a, site), "%s: scan of iter_%s for case %s compares %s and returns %s" % (site, it, v, cmpv, cargs))
                            chained[v] = chained.get(v, 0) + 1
                if v is None:
                    good = False
                    break
                e = e["r"]
            if good and sorted(chained) == sorted(variants) and all(c == 1 for c in chained.values()):
                res.ok()
            else:
                res.bad("T-ENUM:cases:ctors", m.where(fn, site), "%s scans constructors %s, the enum has %s" % (site, chained, sorted(variants)))
        # e_case
        fn = m.fns.get(ts + "_case")
        if fn is None:
            res.bad("T-ENUM:case:missing", m.path, "enum %s has no %s_case" % (tc, ts))
        else:
            b = [stmt_expr(s) for s in fn["b"]["s"]]
            ps = _params(fn)
            if len(b) == 1 and ps and expr_str(b[0]) == "self.%s_cases(%s).next().unwrap()" % (ts, ps[0][0]):
                res.ok()
            else:
                res.bad("T-ENUM:case:shape", m.where(fn, ts + "_case"), "%s_case is not the first element of %s_cases" % (ts, ts))
        # only constructors can be made defined in an enum type through the API
        for rname, rel in m.rels.items():
            if rel.has_define and rel.arg_types[-1] == tc:
                if rname in vsnake.values():
                    res.ok()
                else:
                    res.bad("T-ENUM:define:non-constructor", m.where(m.fns["define_" + rname], "define_" + rname),
                            "define_%s creates an element of enum type %s but %s is not a constructor" % (rname, tc, rname))
        res.sample({"enum": ename, "variants": variants})
    return res
