"""Helpers over the MIR fact files written by /verif/driver: CFG queries (reachability, dominators,
must-pass) and a small place-based forward taint analysis. Pure graph/dataflow computations over the
dumped program representation; nothing is executed."""
import re


class Body:
    def __init__(self, d):
        self.d = d
        self.path = d["path"]
        self.blocks = d["blocks"]
        self.locals = d["locals"]
        self.nargs = d["args"]
        self.file = d["file"]
        self.line = d["line"]
        self._succ = None
        self._dom = None

    def where(self, bb=None):
        ln = self.line
        if bb is not None:
            t = self.blocks[bb]["t"]
            ln = t.get("line", ln)
        return "%s:%s %s" % (self.file, ln, self.path)

    def term(self, bb):
        return self.blocks[bb]["t"]

    def succ(self, bb, unwind=False):
        t = self.blocks[bb]["t"]
        k = t["k"]
        out = []
        if k in ("call", "assert", "drop", "goto"):
            if t.get("target") is not None:
                out.append(t["target"])
            if unwind and t.get("unwind") is not None:
                out.append(t["unwind"])
        elif k == "switch":
            out = [b for _v, b in t["targets"]] + [t["otherwise"]]
        elif k == "other":
            out = list(t.get("succ", []))
        return out

    def calls(self):
        """(bb, terminator) of every call on non-cleanup blocks."""
        for i, b in enumerate(self.blocks):
            if b["t"]["k"] == "call" and not b.get("cleanup"):
                yield i, b["t"]

    def return_blocks(self):
        return [i for i, b in enumerate(self.blocks) if b["t"]["k"] == "return"]

    def reach(self, starts, avoid=(), unwind=False):
        """Blocks reachable from the successors of `starts` (or from `starts` themselves if from_succ=False) without entering `avoid`."""
        avoid = set(avoid)
        seen = set()
        stack = [s for s in starts if s not in avoid]
        while stack:
            b = stack.pop()
            if b in seen:
                continue
            seen.add(b)
            for s in self.succ(b, unwind):
                if s not in seen and s not in avoid:
                    stack.append(s)
        return seen

    def reach_after(self, bb, avoid=(), unwind=False):
        return self.reach(self.succ(bb, unwind), avoid, unwind)

    def dominators(self):
        """dom[b] = set of blocks dominating b (over normal edges from block 0)."""
        if self._dom is not None:
            return self._dom
        n = len(self.blocks)
        reachable = self.reach([0])
        preds = {b: [] for b in range(n)}
        for b in reachable:
            for s in self.succ(b):
                preds[s].append(b)
        dom = {b: set(reachable) for b in reachable}
        dom[0] = {0}
        changed = True
        order = sorted(reachable)
        while changed:
            changed = False
            for b in order:
                if b == 0:
                    continue
                ps = [p for p in preds[b] if p in dom]
                if not ps:
                    continue
                new = set.intersection(*[dom[p] for p in ps]) | {b}
                if new != dom[b]:
                    dom[b] = new
                    changed = True
        self._dom = dom
        return dom

    def dominates(self, a, b):
        d = self.dominators()
        return b in d and a in d[b]

    def local_ty(self, i):
        return self.locals[i][0]

    def local_name(self, i):
        return self.locals[i][1]

    def param_local(self, name):
        for i in range(1, self.nargs + 1):
            if self.locals[i][1] == name:
                return i
        return None


def callee(t):
    return t.get("f") or t.get("raw") or ""


def strip_generics(path):
    """`wbtree::map::Node::<V>::union::<F>` -> `wbtree::map::Node::union`;
    `<wbtree::map::IterMut<'a, V> as std::iter::Iterator>::next` -> `wbtree::map::IterMut::next`"""
    path = path.strip()
    if path.startswith("<"):
        depth = 0
        end = None
        for i, c in enumerate(path):
            if c == "<":
                depth += 1
            elif c == ">":
                depth -= 1
                if depth == 0:
                    end = i
                    break
        if end is not None:
            inner = path[1:end]
            rest = path[end + 1:]
            # split `A as B` at top level
            depth = 0
            self_ty = inner
            for i in range(len(inner)):
                c = inner[i]
                if c == "<":
                    depth += 1
                elif c == ">":
                    depth -= 1
                elif depth == 0 and inner.startswith(" as ", i):
                    self_ty = inner[:i]
                    break
            return strip_generics(self_ty.lstrip("&").replace("mut ", "").strip()) + strip_generics_plain(rest)
    return strip_generics_plain(path)


def strip_generics_plain(path):
    out = []
    depth = 0
    for c in path:
        if c == "<":
            depth += 1
        elif c == ">":
            depth -= 1
        elif depth == 0:
            out.append(c)
    s = "".join(out)
    s = re.sub(r"::(::)+", "::", s)
    return s.rstrip(":")


class Facts:
    def __init__(self, d):
        self.d = d
        self.crate = d["crate"]
        self.bodies = {}
        for b in d["bodies"]:
            self.bodies[b["path"]] = Body(b)
        self.by_short = {}
        for p, b in self.bodies.items():
            self.by_short.setdefault(strip_generics(p), []).append(b)

    def find(self, short):
        """Bodies whose generic-free path equals or ends with `short`."""
        out = []
        for s, bs in self.by_short.items():
            if s == short or s.endswith("::" + short):
                out += bs
        return out

    def one(self, short):
        bs = self.find(short)
        if len(bs) != 1:
            raise KeyError("expected exactly one body for %s, found %d" % (short, len(bs)))
        return bs[0]

    def closures_of(self, body):
        return [b for p, b in self.bodies.items() if b.d.get("parent") == body.path and b.d["kind"] == "Closure"]

    def callgraph(self):
        g = {}
        for p, b in self.bodies.items():
            cs = set()
            for _bb, t in b.calls():
                c = callee(t)
                if c:
                    cs.add(c)
            # closures are reached from the body that creates them
            for bl in b.blocks:
                for s in bl["s"]:
                    rv = s.get("rv")
                    if rv and rv.get("k") == "agg" and rv["ak"].startswith("closure:"):
                        cs.add(rv["ak"][len("closure:"):])
                for op in operands_of_block(bl):
                    if op.get("k") == "const" and op.get("fn"):
                        cs.add(op["fn"])
                    if op.get("k") == "const" and op.get("closure"):
                        cs.add(op["closure"])
            g[p] = cs
        return g

    def reachable_from(self, roots):
        g = self.callgraph()
        seen = set()
        stack = list(roots)
        while stack:
            n = stack.pop()
            if n in seen:
                continue
            seen.add(n)
            for c in g.get(n, ()):
                if c in self.bodies and c not in seen:
                    stack.append(c)
                elif c not in self.bodies:
                    # generic instance paths: match by stripped name
                    for b in self.by_short.get(strip_generics(c), []):
                        if b.path not in seen:
                            stack.append(b.path)
        return seen


def operands_of_block(bl):
    for s in bl["s"]:
        rv = s.get("rv")
        if not rv:
            continue
        for key in ("op", "a", "b"):
            if isinstance(rv.get(key), dict):
                yield rv[key]
        for o in rv.get("ops", []):
            yield o
    t = bl["t"]
    for o in t.get("args", []):
        yield o
    for key in ("d", "cond"):
        if isinstance(t.get(key), dict):
            yield t[key]


# ---------------------------------------------------------------------------
# taint

def op_place(op):
    if "c" in op:
        return op["c"]
    if "m" in op:
        return op["m"]
    return None


def norm_proj(proj):
    """Drop downcasts; keep field/deref/index markers."""
    return tuple(p for p in proj if not p.startswith("@"))


class Taint:
    """Forward may-taint over places (local, field path). Labels are arbitrary hashables.

    store: {(local, path): set(labels)}. Reading place (l, p) unions every stored (l, q) with q a prefix of p
    or p a prefix of q. Derefs are transparent (a reference carries the taint of what it points to).
    Calls: the destination receives the union of the taints of the arguments accepted by `carries(body, operand)`;
    `summaries` may override per callee: fn(callee, arg_taints) -> labels or None.
    """

    def __init__(self, body, sources, carries=None, summaries=None):
        self.body = body
        self.store = {}
        for loc, lab in sources.items():
            self.store[(loc, ())] = {lab}
        self.carries = carries or (lambda body, op: True)
        self.summaries = summaries
        self.run()

    @staticmethod
    def _path(proj):
        return tuple(p for p in norm_proj(proj) if p != "*")

    def read_place(self, place):
        loc, proj = place
        p = self._path(proj)
        out = set()
        for (l, q), labs in self.store.items():
            if l != loc:
                continue
            n = min(len(p), len(q))
            if p[:n] == q[:n]:
                out |= labs
        return out

    def read_op(self, op):
        pl = op_place(op)
        if pl is None:
            return set()
        return self.read_place(pl)

    def write(self, place, labs):
        if not labs:
            return False
        loc, proj = place
        key = (loc, self._path(proj))
        old = self.store.get(key, set())
        if labs <= old:
            return False
        self.store[key] = old | labs
        return True

    def run(self):
        changed = True
        rounds = 0
        while changed and rounds < 50:
            rounds += 1
            changed = False
            for bl in self.body.blocks:
                if bl.get("cleanup"):
                    continue
                for s in bl["s"]:
                    rv = s.get("rv")
                    if not rv:
                        continue
                    lhs = s["lhs"]
                    k = rv["k"]
                    if k in ("use", "cast", "repeat", "un"):
                        op = rv.get("op") or rv.get("a")
                        changed |= self.write(lhs, self.read_op(op))
                    elif k in ("ref", "rawptr", "discr"):
                        if k != "discr":
                            changed |= self.write(lhs, self.read_place(rv["p"]))
                    elif k == "bin":
                        changed |= self.write(lhs, self.read_op(rv["a"]) | self.read_op(rv["b"]))
                    elif k == "agg":
                        for i, o in enumerate(rv["ops"]):
                            labs = self.read_op(o)
                            if labs:
                                changed |= self.write([lhs[0], list(lhs[1]) + [".%d" % i]], labs)
                t = bl["t"]
                if t["k"] == "call":
                    arg_t = [self.read_op(a) if self.carries(self.body, a) else set() for a in t["args"]]
                    labs = None
                    if self.summaries:
                        labs = self.summaries(callee(t), arg_t, t)
                    if labs is None:
                        labs = set()
                        for a in arg_t:
                            labs |= a
                    changed |= self.write(t["dest"], labs)
        return self

    def arg_taints(self, t):
        return [self.read_op(a) for a in t["args"]]

    def tuple_arg_fields(self, op, n):
        """Taints of fields .0 .. .n-1 of a tuple operand (closure-call argument packs)."""
        pl = op_place(op)
        out = []
        for i in range(n):
            out.append(self.read_place([pl[0], list(pl[1]) + [".%d" % i]]) if pl else set())
        return out
