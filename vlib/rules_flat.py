"""T-FLAT: for enumerated flat-shaped rules the flat rule printed above the emitted rule functions equals the source
rule up to a bijective renaming of variables (after identifying variables equated in the premise)."""
import itertools
import json
import os

from .core import RuleResult
from .emodel import AnchorError, norm


def _expand(atom, m):
    """Header atom -> (relation name normalised, full argument list) with diagonals expanded."""
    if atom.diag:
        reps = [i for i, j in enumerate(atom.diag) if i == j]
        if len(reps) != len(atom.args):
            raise AnchorError("diagonal atom %s has %d arguments for %d representatives" % (atom.raw, len(atom.args), len(reps)))
        full = [atom.args[reps.index(j)] for j in atom.diag]
        return norm(atom.rel), full
    return norm(atom.rel), list(atom.args)


def _canon(atoms, concls):
    """Canonical form up to variable renaming and atom order: minimum over orderings of atoms of equal relation."""
    # the premise is a set of atoms: an atom listed twice matches the same tuple twice and constrains nothing further
    groups = {}
    for rel, args in atoms:
        if tuple(args) not in groups.setdefault(rel, []):
            groups[rel].append(tuple(args))
    rels = sorted(groups)
    best = None
    perms = [list(itertools.permutations(groups[r])) for r in rels]
    count = 0
    for choice in itertools.product(*perms):
        count += 1
        if count > 5000:
            break
        names = {}

        def nm(v):
            if v not in names:
                names[v] = "v%d" % len(names)
            return names[v]
        seq = []
        for r, alist in zip(rels, choice):
            for args in alist:
                seq.append((r, tuple(nm(a) for a in args)))
        cs = sorted(set((r, tuple(sorted(nm(a) for a in args)) if "==" in r else tuple(nm(a) for a in args)) for r, args in concls))
        cand = (tuple(seq), tuple(cs))
        if best is None or cand < best:
            best = cand
    return best


def rule_flat(m, rule_mods, sidecar_path):
    res = RuleResult("T-FLAT")
    with open(sidecar_path) as f:
        expected = json.load(f)
    mods = {mod.name: mod for mod in rule_mods}
    for rname, info in sorted(expected.items()):
        mod = mods.get(rname)
        where = "%s rule %s" % (m.path, rname)
        if mod is None:
            res.bad("T-FLAT:rule:no-module", where, "source rule %s has no emitted rule module" % rname)
            continue
        # The rule's flat sub-rules as a set of (premise, conclusion) up to renaming. Sub-rules with an empty conclusion are
        # no-ops (the front end emits them for then-statements whose content is already in the premise) and are ignored on both
        # sides; the semi-naive copies of one stage have the same canonical form.
        want = set()
        for exp in info["stages"]:
            if not exp["conclusion"]:
                continue
            want_atoms = [(norm(r), ["c%s" % a for a in args]) for r, args in exp["premise"]]
            want_concl = [(norm(r), ["c%s" % a for a in args]) for r, args in exp["conclusion"]]
            want.add(_canon(want_atoms, want_concl))
        got = {}
        for rt in mod.routines:
            if not rt.concls:
                continue
            got_atoms = [_expand(a, m) for a in rt.atoms]
            got_concl = [(norm(c.rel), list(c.args)) for c in rt.concls]
            got.setdefault(_canon(got_atoms, got_concl), rt)
        for w in want:
            if w in got:
                res.ok()
            else:
                res.bad("T-FLAT:stage:missing", where, "rule %s: no emitted sub-rule implements the source stage %s => %s (up to renaming)" % (rname, list(w[0]), list(w[1])), {"source": info["text"]})
        for g_, rt in got.items():
            if g_ not in want:
                res.bad("T-FLAT:stage:unexpected", "%s routine %s" % (m.path, rt.rule_name),
                        "rule %s: emitted sub-rule %s => %s corresponds to no stage of the source rule" % (rname, [a.raw for a in rt.atoms], [c.raw for c in rt.concls]), {"source": info["text"]})
        res.count("rules")
    res.sample({"theory": m.path, "rules": len(expected)})
    return res
