"""T-FLAT: for enumerated flat-shaped rules the flat rule printed above the emitted rule functions equals the source
rule up to a bijective renaming of variables (after identifying variables equated in the premise)."""
import itertools
import json
import os

from .core import RuleResult
from .emodel import AnchorError, norm


def _expand(atom, m):
    """Header atom -> (relation name normalised, full argument list) with diagonals expanded."""
    if atom.diag:
        reps = [i for i, j in enumerate(atom.diag) if i == j]
        if len(reps) != len(atom.args):
            raise AnchorError("diagonal atom %s has %d arguments for %d representatives" % (atom.raw, len(atom.args), len(reps)))
        full = [atom.args[reps.index(j)] for j in atom.diag]
        return norm(atom.rel), full
    return norm(atom.rel), list(atom.args)


def _canon(atoms, concls):
    """Canonical form up to variable renaming and atom order: minimum over orderings of atoms of equal relation."""
    # the premise is a set of atoms: an atom listed twice matches the same tuple twice and constrains nothing further
    groups = {}
    for rel, args in atoms:
        if tuple(args) not in groups.setdefault(rel, []):
            groups[rel].append(tuple(args))
    rels = sorted(groups)
    best = None
    perms = [list(itertools.permutations(groups[r])) for r in rels]
    count = 0
    for choice in itertools.product(*perms):
        count += 1
        if count > 5000:
            break
        names = {}

        def nm(v):
            if v not in names:
                names[v] = "v%d" % len(names)
            return names[v]
        seq = []
        for r, alist in zip(rels, choice):
            for args in alist:
                seq.append((r, tuple(nm(a) for a in args)))
        cs = sorted(set((r, tuple(sorted(nm(a) for a in args)) if "==" in r else tuple(nm(a) for a in args)) for r, args in concls))
        cand = (tuple(seq), tuple(cs))
        if best is None or cand < best:
            best = cand
    return best


def rule_flat(m, rule_mods, sidecar_path):
    res = RuleResult("T-FLAT")
    with open(sidecar_path) as f:
        expected = json.load(f)
    mods = {mod.name: mod for mod in rule_mods}
    for rname, info in sorted(expected.items()):
        mod = mods.get(rname)
        where = "%s rule %s" % (m.path, rname)
        if mod is None:
            res.bad("T-FLAT:rule:no-module", where, "source rule %s has no emitted rule module" % rname)
            continue
        # families of the module, keyed by the sub-rule stage: routines are named <rule>_<stage>_<k>
        stages = {}
        for rt in mod.routines:
            parts = rt.rule_name.rsplit("_", 2)
            if len(parts) != 3 or parts[0] != rname:
                res.bad("T-FLAT:routine:name", where, "routine %s does not follow <rule>_<stage>_<subrule>" % rt.rule_name)
                continue
            stages.setdefault(int(parts[1]), []).append(rt)
        if sorted(stages) != list(range(len(info["stages"]))):
            res.bad("T-FLAT:rule:stage-count", where, "rule %s: emitted stages %s, source has %d then-stages" % (rname, sorted(stages), len(info["stages"])))
            continue
        for si, exp in enumerate(info["stages"]):
            want_atoms = [(norm(r), ["c%s" % a for a in args]) for r, args in exp["premise"]]
            want_concl = []
            for r, args in exp["conclusion"]:
                want_concl.append((norm(r), ["c%s" % a for a in args]))
            want = _canon(want_atoms, want_concl)
            for rt in stages[si]:
                got_atoms = [_expand(a, m) for a in rt.atoms]
                got_concl = [(norm(c.rel), list(c.args)) for c in rt.concls]
                got = _canon(got_atoms, got_concl)
                if got == want:
                    res.ok()
                else:
                    res.bad("T-FLAT:stage:differs", "%s routine %s" % (m.path, rt.rule_name),
                            "rule %s stage %d: emitted flat rule %s / %s differs from the source rule %s / %s (up to renaming)"
                            % (rname, si, got_atoms, got_concl, exp["premise"], exp["conclusion"]), {"source": info["text"]})
        res.count("rules")
    res.sample({"theory": m.path, "rules": len(expected)})
    return res
