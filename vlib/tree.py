"""Helpers over the JSON syntax tree produced by /verif/analyzer."""


def walk(node):
    """Pre-order walk over all dict nodes."""
    stack = [node]
    while stack:
        n = stack.pop()
        if isinstance(n, dict):
            yield n
            for v in reversed(list(n.values())):
                if isinstance(v, (dict, list)):
                    stack.append(v)
        elif isinstance(n, list):
            for v in reversed(n):
                if isinstance(v, (dict, list)):
                    stack.append(v)


def kind(n):
    return n.get("k") if isinstance(n, dict) else None


def is_path(n, name=None):
    return kind(n) == "path" and (name is None or n["p"] == name)


def self_field(n):
    """`self.X` (also `(&self.X)`, `&mut self.X`) -> 'X', else None."""
    while kind(n) == "ref":
        n = n["e"]
    if kind(n) == "field" and is_path(n["b"], "self"):
        return n["m"]
    return None


def base_field(n, base):
    """`<base>.X` -> 'X'."""
    while kind(n) == "ref":
        n = n["e"]
    if kind(n) == "field" and is_path(n["b"], base):
        return n["m"]
    return None


def mcall(n, method=None):
    return kind(n) == "mcall" and (method is None or n["m"] == method)


def stmt_expr(s):
    """Expression of an expression statement, else None."""
    if kind(s) == "expr":
        return s["e"]
    return None


def array_names(n):
    """`[a, b, c]` of plain paths -> ['a','b','c'] else None."""
    if kind(n) != "array":
        return None
    out = []
    for e in n["e"]:
        if kind(e) == "path":
            out.append(e["p"])
        else:
            return None
    return out


def pat_names(p):
    """slice/tuple pattern of identifiers -> names ('_' for wildcard), else None."""
    if kind(p) in ("pslice", "ptuple"):
        out = []
        for e in p["e"]:
            if kind(e) == "pid":
                out.append(e["n"])
            elif kind(e) == "pwild":
                out.append("_")
            else:
                return None
        return out
    if kind(p) == "pid":
        return [p["n"]]
    return None


def strip_ln(n):
    """Copy of a tree without line numbers (for structural equality)."""
    if isinstance(n, dict):
        return {k: strip_ln(v) for k, v in n.items() if k not in ("ln", "end")}
    if isinstance(n, list):
        return [strip_ln(v) for v in n]
    return n


def find_fns(items, prefix=""):
    """All fn items in a list of items (descending into impls and mods): yields (qualified name, fn node, impl type or None)."""
    for it in items:
        k = kind(it)
        if k == "fn":
            yield prefix + it["n"], it, None
        elif k == "impl":
            for sub in it["items"]:
                if kind(sub) == "fn":
                    yield prefix + it["ty"].replace(" ", "") + "::" + sub["n"], sub, it
        elif k == "mod" and it.get("items") is not None:
            yield from find_fns(it["items"], prefix + it["n"] + "::")


def nospace(s):
    return "".join(s.split())


def expr_str(n):
    """Compact rendering of an expression for reports."""
    k = kind(n)
    if k == "path":
        return n["p"]
    if k == "lit":
        return n["v"]
    if k == "field":
        return expr_str(n["b"]) + "." + n["m"]
    if k == "mcall":
        return "%s.%s(%s)" % (expr_str(n["r"]), n["m"], ", ".join(expr_str(a) for a in n["a"]))
    if k == "call":
        return "%s(%s)" % (expr_str(n["f"]), ", ".join(expr_str(a) for a in n["a"]))
    if k == "bin":
        return "(%s %s %s)" % (expr_str(n["lhs"]), n["op"], expr_str(n["rhs"]))
    if k == "un":
        return n["op"] + expr_str(n["e"])
    if k == "ref":
        return "&" + ("mut " if n["mut"] else "") + expr_str(n["e"])
    if k == "array":
        return "[" + ", ".join(expr_str(e) for e in n["e"]) + "]"
    if k == "tuple":
        return "(" + ", ".join(expr_str(e) for e in n["e"]) + ")"
    if k == "index":
        return expr_str(n["b"]) + "[" + expr_str(n["i"]) + "]"
    if k == "cast":
        return expr_str(n["e"]) + " as " + n["t"]
    if k == "closure":
        return "|..| " + expr_str(n["b"])
    if k == "block":
        return "{..}"
    if k == "macro":
        return n["p"] + "!(..)"
    return "<%s>" % k
