"""Rules over the table-maintenance code of one emitted model:
T-FAM, T-INS, T-DIAG, T-MOVE, T-CANON, T-DIRTY, T-DELTA, T-FUNC."""
from .core import RuleResult
from .emodel import AnchorError, norm
from .tree import (array_names, expr_str, kind, is_path, mcall, pat_names, self_field, stmt_expr, walk, nospace)


# ---------------------------------------------------------------------------
# boolean guards over column variables, decided by truth table over set partitions

def set_partitions(n):
    """All restricted-growth strings of length n (each is a tuple class-of-position)."""
    def rec(prefix, maxc):
        if len(prefix) == n:
            yield tuple(prefix)
            return
        for c in range(maxc + 2):
            prefix.append(c)
            yield from rec(prefix, max(maxc, c))
            prefix.pop()
    if n == 0:
        yield ()
        return
    yield from rec([], -1)


class GuardError(Exception):
    pass


def eval_guard(e, val):
    """val: variable name -> equivalence class id."""
    k = kind(e)
    if k == "bin":
        op = e["op"]
        if op == "&&":
            return eval_guard(e["lhs"], val) and eval_guard(e["rhs"], val)
        if op == "||":
            return eval_guard(e["lhs"], val) or eval_guard(e["rhs"], val)
        if op in ("==", "!="):
            a, b = e["lhs"], e["rhs"]
            if kind(a) != "path" or kind(b) != "path" or a["p"] not in val or b["p"] not in val:
                raise GuardError("comparison of something other than two column variables: %s" % expr_str(e))
            r = val[a["p"]] == val[b["p"]]
            return r if op == "==" else not r
        raise GuardError("operator %s in guard" % op)
    if k == "un" and e["op"] == "!":
        return not eval_guard(e["e"], val)
    if k == "lit" and e["v"] in ("true", "false"):
        return e["v"] == "true"
    raise GuardError("guard not a boolean combination of column comparisons: %s" % expr_str(e))


def guard_matches_eqs(guard, eqs, col_var):
    """Is `guard` (None = no guard = true) equivalent to AND_{i: eqs[i]!=i} col_i == col_eqs[i]?
    col_var: column -> variable name. Returns (ok, counterexample-partition or None, n partitions)."""
    n = len(eqs)
    cnt = 0
    for part in set_partitions(n):
        cnt += 1
        val = {col_var[c]: part[c] for c in range(n)}
        ref = all(part[i] == part[eqs[i]] for i in range(n) if eqs[i] != i)
        got = True if guard is None else eval_guard(guard, val)
        if ref != got:
            return False, part, cnt
    return True, None, cnt


def expected_row(f, col_var):
    """The row (list of variable names) that must be written to / removed from index field f for a tuple
    whose column c is held in variable col_var[c]."""
    if f.eqs is None:
        return [col_var[c] for c in f.order]
    reps = f.reps()
    return [col_var[reps[j]] for j in f.order]


def diag_sig(f):
    return "eqs=%s" % ",".join(map(str, f.eqs)) if f.eqs is not None else "plain"


# ---------------------------------------------------------------------------
# collecting index writes from a statement list

class Write:
    def __init__(self, field, method, row, guard, node):
        self.field, self.method, self.row, self.guard, self.node = field, method, row, guard, node


def index_call(e):
    """`self.F.<m>([..])` -> (F, m, row names) else None"""
    if mcall(e) and e["m"] in ("insert", "remove", "contains") and len(e["a"]) == 1:
        f = self_field(e["r"])
        row = array_names(e["a"][0])
        if f is not None and row is not None:
            return f, e["m"], row
    return None


def collect_writes(stmts, method, guard=None, out=None, unknown=None):
    """Index writes `self.F.<method>(row)` in a statement list; `if G { .. }` without else adds guard G
    (nested guards are conjoined)."""
    out = [] if out is None else out
    for s in stmts:
        e = stmt_expr(s)
        if e is None:
            continue
        ic = index_call(e)
        if ic and ic[1] == method:
            out.append(Write(ic[0], ic[1], ic[2], guard, e))
            continue
        if kind(e) == "if" and e["e"] is None and kind(e["c"]) != "letx":
            inner = [x for x in walk(e["t"]) if index_call(x) and index_call(x)[1] == method]
            if inner and not any(index_call(x) for x in walk(e["c"])):
                g = e["c"] if guard is None else {"k": "bin", "op": "&&", "lhs": guard, "rhs": e["c"]}
                collect_writes(e["t"]["s"], method, g, out, unknown)
                continue
        if unknown is not None:
            unknown.append(s)
    return out


def check_family_writes(res, m, rel, writes, required, col_var, site, fn_node, what):
    """Every field of `required` written exactly once with the right row and an exact guard; no other index field written."""
    by = {}
    for w in writes:
        by.setdefault(w.field, []).append(w)
    req_names = {f.name for f in required}
    for f in required:
        ws = by.get(f.name, [])
        key_base = "%s:%s:%s:%s" % (res.rule, site_kind(site), what, "diagonal" if f.eqs is not None else "plain")
        if len(ws) != 1:
            res.bad(key_base + ":count=%d" % len(ws), m.where(fn_node, site),
                    "%s: index %s is %s %d times (expected once) for relation %s" % (site, f.name, what, len(ws), rel),
                    {"field": f.name})
            continue
        w = ws[0]
        exp = expected_row(f, col_var)
        if w.row != exp:
            res.bad(key_base + ":row", m.where(w.node, site),
                    "%s: row %s written to %s, expected %s" % (site, w.row, f.name, exp), {"field": f.name})
            continue
        if f.eqs is None:
            if w.guard is not None:
                try:
                    # a guard on a plain index must be a tautology
                    ok, cex, _ = guard_matches_eqs(w.guard, tuple(range(len(col_var))), col_var)
                except GuardError as ge:
                    ok, cex = False, str(ge)
                if not ok:
                    res.bad(key_base + ":guarded", m.where(w.node, site),
                            "%s: %s of plain index %s is conditional (%s)" % (site, what, f.name, expr_str(w.guard)), {"field": f.name})
                    continue
            res.ok()
        else:
            try:
                ok, cex, n = guard_matches_eqs(w.guard, f.eqs, col_var)
            except GuardError as ge:
                res.bad(key_base + ":guard-unevaluable", m.where(w.node, site), "%s: %s" % (site, ge), {"field": f.name})
                continue
            res.count("partitions", n)
            if not ok:
                neq = sum(1 for i, j in enumerate(f.eqs) if i != j)
                gtxt = "none" if w.guard is None else expr_str(w.guard)
                res.bad("T-DIAG:%s:%s:guard-not-exact:%s" % (site.split("_")[0] if False else site_kind(site), what,
                                                                 "unguarded" if w.guard is None else ("neq>=2" if neq >= 2 else "neq=1")),
                        m.where(w.node, site),
                        "%s: guard of diagonal index %s is `%s`, not equivalent to the equalities %s (differs when columns are partitioned as %s)"
                        % (site, f.name, gtxt, f.eqs, list(cex)), {"field": f.name, "guard": gtxt, "eqs": list(f.eqs), "partition": list(cex)})
            else:
                res.ok()
                res.count("diag_guards_exact")
    for name, ws in by.items():
        if name not in req_names:
            res.bad("%s:%s:%s:unexpected-field" % (res.rule, site_kind(site), what), m.where(ws[0].node, site),
                    "%s: %s of index %s which is not a %s member of the family of %s" % (site, what, name, "matching", rel), {"field": name})


def site_kind(site):
    for p in ("insert", "move_new_to_old", "canonicalize"):
        if site.startswith(p):
            return p
    return site


# ---------------------------------------------------------------------------

def rule_fam(m):
    """T-FAM: struct <-> new()."""
    res = RuleResult("T-FAM")
    new = m.fns.get("new")
    if new is None:
        raise AnchorError("no new() function")
    lits = [n for n in walk(new["b"]) if kind(n) == "struct" and n["p"] == "Self"]
    if len(lits) != 1:
        raise AnchorError("new() does not consist of one Self { .. } literal")
    init = {}
    for fv in lits[0]["f"]:
        init.setdefault(fv["n"], []).append(fv["e"])
    for name, typ in m.field_types.items():
        es = init.get(name, [])
        if len(es) != 1:
            res.bad("T-FAM:new:init-count", m.where(new, "new"), "field %s initialised %d times in new()" % (name, len(es)))
            continue
        e = es[0]
        txt = expr_str(e)
        if typ.startswith("PrefixTree"):
            good = txt == typ + "::new()"
        elif typ.startswith("BTreeMap<"):
            good = txt == "BTreeMap::new()"
        elif typ.startswith("Unification<"):
            good = txt == "Unification::new()"
        elif typ.startswith("Vec<"):
            good = txt == "Vec::new()"
        elif name == "empty_join_is_dirty":
            good = txt == "true"
        else:
            good = True
        if good:
            res.ok()
        else:
            res.bad("T-FAM:new:init-value", m.where(e, "new"), "field %s: %s initialised with %s" % (name, typ, txt))
    for name in init:
        if name not in m.field_types:
            res.bad("T-FAM:new:unknown-field", m.where(new, "new"), "new() initialises unknown field %s" % name)
    # own/all copies come in pairs
    for f in m.index_fields:
        if f.copy:
            twin = f.base + ("_all" if f.copy == "own" else "_own")
            if twin in m.by_name:
                res.ok()
            else:
                res.bad("T-FAM:struct:own-all-pair", m.path, "index %s has no %s twin" % (f.name, twin))
    # every relation: a full-order plain/own index per age; every type: both type sets; element index per type of arity
    for r in m.rels.values():
        for age in ("new", "old"):
            if m.primary(r.name, age):
                res.ok()
            else:
                res.bad("T-FAM:struct:no-primary", m.path, "relation %s has no full %s index" % (r.name, age))
        for tc in set(r.arg_types):
            ts = m.type_snake_of_camel(tc)
            if (r.name, ts) in m.elem_index:
                res.ok()
            else:
                res.bad("T-FAM:struct:no-element-index", m.path, "relation %s has no element index for type %s" % (r.name, ts))
    for ts in m.types:
        m.typeset(ts, "new")
        m.typeset(ts, "old")
        res.ok()
    res.sample({"model": m.name, "index_fields": len(m.index_fields), "relations": len(m.rels), "types": len(m.types)})
    return res


def _insert_parts(m, r):
    """Split the body of insert_<r> into its parts. Returns dict."""
    fn = m.fns["insert_" + r.name]
    params = [p for p in fn["params"] if kind(p) == "param"]
    col_var = []
    for p in params:
        if kind(p["p"]) != "pid":
            raise AnchorError("insert_%s: parameter pattern not an identifier" % r.name)
        col_var.append(p["p"]["n"])
    parts = {"fn": fn, "col_var": col_var, "roots": {}, "checks": [], "writes": [], "elidx": [], "other": []}
    for s in fn["b"]["s"]:
        if kind(s) == "let":
            # let elK: u32 = self.root_T(elK).0;
            e = s["e"]
            pn = s["p"]
            while kind(pn) == "ptype":
                pn = pn["p"]
            if kind(pn) == "pid" and kind(e) == "field" and e["m"] == "0" and mcall(e["b"]) and is_path(e["b"]["r"], "self") \
                    and e["b"]["m"].startswith("root_") and len(e["b"]["a"]) == 1 and kind(e["b"]["a"][0]) == "path":
                parts["roots"][pn["n"]] = (e["b"]["m"][5:], e["b"]["a"][0]["p"], s)
                continue
            parts["other"].append(s)
            continue
        e = stmt_expr(s)
        if kind(e) == "if" and e["e"] is None:
            body = e["t"]["s"]
            # early return
            if len(body) == 1 and kind(stmt_expr(body[0])) == "return":
                parts["checks"].append(e)
                continue
            if any(mcall(x, "push") for x in walk(e["t"])) and any(mcall(x, "entry") for x in walk(e["t"])):
                parts["elidx"].append(e)
                continue
        parts["other"].append(s)
    unknown = []
    parts["writes"] = collect_writes([s for s in parts["other"]], "insert", unknown=unknown)
    parts["unknown"] = unknown
    return parts


def rule_ins(m):
    """T-INS (with T-DIAG on insertion guards)."""
    res = RuleResult("T-INS")
    for r in m.rels.values():
        site = "insert_" + r.name
        P = _insert_parts(m, r)
        fn, col_var = P["fn"], P["col_var"]
        # (i) every argument is mapped through root_<its type> before anything else uses it
        for c, v in enumerate(col_var):
            ts = m.type_snake_of_camel(r.arg_types[c])
            got = P["roots"].get(v)
            if got and got[0] == ts and got[1] == v:
                res.ok()
            else:
                res.bad("T-INS:insert:root-missing", m.where(fn, site), "%s: argument %d (%s) is not canonicalised with root_%s" % (site, c, v, ts))
        first_other = min([s["ln"] for s in P["other"] if kind(s) != "let"] + [e["ln"] for e in P["checks"]] + [10**9])
        for v, (_, _, s) in P["roots"].items():
            if s["ln"] > first_other:
                res.bad("T-INS:insert:root-late", m.where(s, site), "%s: %s canonicalised after first use" % (site, v))
        # (ii) early return covers both ages with correct rows on full, plain indices
        ages = set()
        for chk in P["checks"]:
            ic = index_call(chk["c"])
            if not ic or ic[1] != "contains":
                res.bad("T-INS:insert:early-return-cond", m.where(chk, site), "%s: early return not guarded by an index lookup: %s" % (site, expr_str(chk["c"])))
                continue
            f = m.by_name.get(ic[0])
            if f is None or f.rel != r.name or f.is_typeset:
                res.bad("T-INS:insert:early-return-field", m.where(chk, site), "%s: early return looks at %s, not an index of %s" % (site, ic[0], r.name))
                continue
            if f.eqs is not None:
                res.bad("T-INS:insert:early-return-diag", m.where(chk, site), "%s: early return looks at diagonal index %s" % (site, f.name))
                continue
            if ic[2] != expected_row(f, col_var):
                res.bad("T-INS:insert:early-return-row", m.where(chk, site), "%s: lookup row %s in %s, expected %s" % (site, ic[2], f.name, expected_row(f, col_var)))
                continue
            ages.add(f.age)
            res.ok()
        for age in ("new", "old"):
            if age in ages:
                res.ok()
            else:
                res.bad("T-INS:insert:early-return-age:" + age, m.where(fn, site), "%s: presence of the row among %s tuples is not checked before inserting" % (site, age))
        # early returns precede all writes
        wl = [w.node["ln"] for w in P["writes"]] + [e["ln"] for e in P["elidx"]]
        if wl and P["checks"] and max(c["ln"] for c in P["checks"]) > min(wl):
            res.bad("T-INS:insert:early-return-late", m.where(fn, site), "%s: a presence check follows a write" % site)
        # (iii)+(v) writes: exactly the new-age family (own and all copies), no old-age field
        required = m.family(r.name, "new")
        check_family_writes(res, m, r.name, P["writes"], required, col_var, site, fn, "insert")
        # (iv) element index: once per distinct argument of each type
        rule_ins_elidx(res, m, r, P, site)
        # statements we did not classify must not touch tables
        for s in P["unknown"]:
            touched = [self_field(x) for x in walk(s) if self_field(x)]
            bad = [t for t in touched if t in m.by_name or t.endswith("_element_index") or t.endswith("_uprooted") or t.endswith("_equalities")]
            if bad:
                res.bad("T-INS:insert:unclassified-table-access", m.where(s, site), "%s: statement touches %s in a way the rule does not recognise" % (site, bad))
        res.sample({"fn": site, "new_family": [f.name for f in required], "checks": len(P["checks"])})
    return res


def rule_ins_elidx(res, m, r, P, site):
    col_var = P["col_var"]
    fn = P["fn"]
    per_type = {}
    for e in P["elidx"]:
        pushes = [x for x in walk(e["t"]) if mcall(x, "push")]
        if len(pushes) != 1:
            res.bad("T-INS:insert:elidx-shape", m.where(e, site), "%s: element-index block with %d pushes" % (site, len(pushes)))
            continue
        p = pushes[0]
        # self.F.entry(key).or_default().push([row])
        recv = p["r"]
        if not (mcall(recv, "or_default") and mcall(recv["r"], "entry") and self_field(recv["r"]["r"]) and len(recv["r"]["a"]) == 1
                and kind(recv["r"]["a"][0]) == "path"):
            res.bad("T-INS:insert:elidx-shape", m.where(p, site), "%s: element-index push not of the form self.F.entry(k).or_default().push(row)" % site)
            continue
        field = self_field(recv["r"]["r"])
        keyv = recv["r"]["a"][0]["p"]
        row = array_names(p["a"][0]) if len(p["a"]) == 1 else None
        per_type.setdefault(field, []).append((e["c"], keyv, row, p))
    for tc in sorted(set(r.arg_types)):
        ts = m.type_snake_of_camel(tc)
        field = m.elem_index.get((r.name, ts))
        entries = per_type.pop(field, [])
        cols = [c for c, t in enumerate(r.arg_types) if t == tc]
        good = True
        for cond, keyv, row, p in entries:
            if row != col_var:
                res.bad("T-INS:insert:elidx-row", m.where(p, site), "%s: row %s pushed to %s, expected %s (natural column order)" % (site, row, field, col_var))
                good = False
        if not good:
            continue
        # truth table: for every partition of the columns of this type each class must receive exactly one push
        try:
            for part in set_partitions(len(cols)):
                val = {col_var[c]: part[i] for i, c in enumerate(cols)}
                # variables of other types never appear in these guards; give them fresh classes
                for c, v in enumerate(col_var):
                    if v not in val:
                        val[v] = 1000 + c
                got = {}
                for cond, keyv, row, p in entries:
                    if eval_guard(cond, val):
                        if keyv not in val or col_var.index(keyv) not in cols:
                            raise GuardError("key %s is not a column of type %s" % (keyv, tc))
                        got[val[keyv]] = got.get(val[keyv], 0) + 1
                want = {cl: 1 for cl in set(part)}
                res.count("elidx_partitions")
                if got != want:
                    res.bad("T-INS:insert:elidx-cover", m.where(fn, site),
                            "%s: element index %s receives %s pushes per class when columns %s are partitioned as %s (expected one per distinct element)"
                            % (site, field, got, cols, list(part)))
                    good = False
                    break
        except GuardError as ge:
            res.bad("T-INS:insert:elidx-guard", m.where(fn, site), "%s: %s" % (site, ge))
            good = False
        if good:
            res.ok()
    for field, entries in per_type.items():
        res.bad("T-INS:insert:elidx-unexpected", m.where(entries[0][3], site), "%s: push into %s, not an element index of a type in the arity" % (site, field))


def rule_move(m):
    """T-MOVE (with T-DIAG on its guards)."""
    res = RuleResult("T-MOVE")
    fn = m.fns.get("move_new_to_old")
    if fn is None:
        raise AnchorError("no move_new_to_old")
    site = "move_new_to_old"
    stmts = fn["b"]["s"]
    seen_rel, seen_type = {}, {}
    cleared = {}
    flag_reset = False
    loops_done_for = set()
    for s in stmts:
        e = stmt_expr(s)
        if e is None:
            res.bad("T-MOVE:move:unrecognised", m.where(s, site), "unrecognised statement in move_new_to_old")
            continue
        if kind(e) == "assign" and self_field(e["lhs"]) == "empty_join_is_dirty":
            if kind(e["rhs"]) == "lit" and e["rhs"]["v"] == "false":
                flag_reset = True
            else:
                res.bad("T-MOVE:move:flag", m.where(e, site), "empty_join_is_dirty assigned %s" % expr_str(e["rhs"]))
            continue
        if kind(e) == "for":
            it = e["e"]
            src = self_field(it["r"]) if mcall(it, "iter") and not it["a"] else None
            f = m.by_name.get(src) if src else None
            if f is None:
                res.bad("T-MOVE:move:loop-source", m.where(e, site), "loop over %s, not over an index" % expr_str(it))
                continue
            if f.age != "new" or f.copy == "all" or f.eqs is not None:
                res.bad("T-MOVE:move:loop-source-kind", m.where(e, site), "loop over %s: must be a plain (own) full new index" % f.name)
                continue
            names = pat_names(e["p"])
            if f.is_typeset:
                # for r in self.T_new.iter() { self.T_old.insert(r); }
                body = e["b"]["s"]
                ok = False
                if len(body) == 1 and names and len(names) == 1:
                    be = stmt_expr(body[0])
                    if mcall(be, "insert") and len(be["a"]) == 1 and (is_path(be["a"][0], names[0]) or array_names(be["a"][0]) == names):
                        tgt = m.by_name.get(self_field(be["r"]) or "")
                        if tgt is not None and tgt.is_typeset and tgt.rel == f.rel and tgt.age == "old":
                            ok = True
                if ok:
                    seen_type[f.rel] = seen_type.get(f.rel, 0) + 1
                    res.ok()
                else:
                    res.bad("T-MOVE:move:typeset-body", m.where(e, site), "type-set loop for %s does not insert each element into the old set" % f.rel)
                continue
            if names is None or len(names) != len(f.order) or len(set(names)) != len(names):
                res.bad("T-MOVE:move:loop-pattern", m.where(e, site), "loop pattern over %s not a row of distinct variables" % f.name)
                continue
            col_var = [None] * len(names)
            for j, c in enumerate(f.order):
                col_var[c] = names[j]
            # the loop must run before its source is cleared
            if f.name in cleared:
                res.bad("T-MOVE:move:clear-before-loop", m.where(e, site), "%s is cleared before it is moved" % f.name)
            unknown = []
            writes = collect_writes(e["b"]["s"], "insert", unknown=unknown)
            for u in unknown:
                res.bad("T-MOVE:move:loop-body", m.where(u, site), "unrecognised statement in the move loop of %s" % f.rel)
            required = m.family(f.rel, "old")
            check_family_writes(res, m, f.rel, writes, required, col_var, site, e, "insert")
            seen_rel[f.rel] = seen_rel.get(f.rel, 0) + 1
            loops_done_for.add(f.rel)
            res.sample({"rel": f.rel, "source": f.name, "old_family": [x.name for x in required]})
            continue
        if mcall(e, "clear") and self_field(e["r"]):
            name = self_field(e["r"])
            f = m.by_name.get(name)
            if f is None:
                res.bad("T-MOVE:move:clear-unknown", m.where(e, site), "clear() of %s" % name)
            elif f.age != "new":
                res.bad("T-MOVE:move:clear-old", m.where(e, site), "old index %s is cleared" % name)
            else:
                if not f.is_typeset and f.rel not in loops_done_for:
                    res.bad("T-MOVE:move:clear-before-loop", m.where(e, site), "%s is cleared before the tuples of %s were moved" % (name, f.rel))
                if f.is_typeset and f.rel not in seen_type:
                    res.bad("T-MOVE:move:clear-before-loop", m.where(e, site), "%s is cleared before the elements of %s were moved" % (name, f.rel))
                cleared[name] = cleared.get(name, 0) + 1
            continue
        res.bad("T-MOVE:move:unrecognised", m.where(s, site), "unrecognised statement in move_new_to_old: %s" % expr_str(e))
    if flag_reset:
        res.ok()
    else:
        res.bad("T-MOVE:move:flag-not-reset", m.where(fn, site), "empty_join_is_dirty is not reset")
    for r in m.rels:
        n = seen_rel.get(r, 0)
        if n == 1:
            res.ok()
        else:
            res.bad("T-MOVE:move:rel-loops=%d" % n, m.where(fn, site), "relation %s is moved by %d loops" % (r, n))
        for f in m.family(r, "new", copies=(None, "own")):
            if cleared.get(f.name, 0) >= 1:
                res.ok()
            else:
                res.bad("T-MOVE:move:not-cleared:%s" % ("diag" if f.eqs is not None else "plain"), m.where(fn, site), "new index %s is not cleared" % f.name)
    for ts in m.types:
        if seen_type.get(ts, 0) == 1 and cleared.get(m.typeset(ts, "new").name, 0) >= 1:
            res.ok()
        else:
            res.bad("T-MOVE:move:typeset", m.where(fn, site), "type set of %s: moved %d times, cleared %d times" % (ts, seen_type.get(ts, 0), cleared.get(m.typeset(ts, "new").name, 0)))
    for name in cleared:
        f = m.by_name[name]
        if f.copy == "all":
            # harmless (recomputed), but not what the protocol says; note only
            res.notes.append("all-copy %s cleared in move_new_to_old" % name)
    return res


def rule_dirty(m):
    """T-DIRTY."""
    res = RuleResult("T-DIRTY")
    fn = m.fns.get("is_dirty")
    if fn is None:
        raise AnchorError("no is_dirty")
    site = "is_dirty"
    body = fn["b"]["s"]
    if len(body) != 1 or stmt_expr(body[0]) is None:
        raise AnchorError("is_dirty is not a single expression")
    terms = []

    def flat(e):
        if kind(e) == "bin" and e["op"] == "||":
            flat(e["lhs"])
            flat(e["rhs"])
        else:
            terms.append(e)
    flat(stmt_expr(body[0]))
    got_fields, got_uprooted, got_flag = set(), set(), False
    for t in terms:
        if self_field(t) == "empty_join_is_dirty":
            got_flag = True
            continue
        if kind(t) == "un" and t["op"] == "!" and mcall(t["e"], "is_empty") and self_field(t["e"]["r"]):
            name = self_field(t["e"]["r"])
            if name.endswith("_uprooted") and name[:-9] in m.types:
                got_uprooted.add(name[:-9])
                continue
            f = m.by_name.get(name)
            if f is None:
                res.bad("T-DIRTY:is_dirty:unknown-term", m.where(t, site), "is_dirty looks at %s" % name)
            elif f.age == "old" or f.copy == "all":
                res.bad("T-DIRTY:is_dirty:never-cleared-term:%s" % ("old" if f.age == "old" else "all"), m.where(t, site),
                        "is_dirty looks at %s, which no iteration empties" % name)
            else:
                got_fields.add(name)
            continue
        if kind(t) == "lit" and t["v"] == "false":
            continue
        res.bad("T-DIRTY:is_dirty:unknown-term", m.where(t, site), "is_dirty term not recognised: %s" % expr_str(t))
    if got_flag:
        res.ok()
    else:
        res.bad("T-DIRTY:is_dirty:flag-missing", m.where(fn, site), "is_dirty ignores empty_join_is_dirty")
    for r in m.rels:
        prim = [f for f in m.primary(r, "new")]
        if any(f.name in got_fields for f in prim):
            res.ok()
        else:
            res.bad("T-DIRTY:is_dirty:rel-missing", m.where(fn, site), "is_dirty ignores new tuples of %s" % r)
    for ts in m.types:
        if m.typeset(ts, "new").name in got_fields:
            res.ok()
        else:
            res.bad("T-DIRTY:is_dirty:typeset-missing", m.where(fn, site), "is_dirty ignores new elements of %s" % ts)
        if ts in got_uprooted:
            res.ok()
        else:
            res.bad("T-DIRTY:is_dirty:uprooted-missing", m.where(fn, site), "is_dirty ignores uprooted elements of %s" % ts)
    res.sample({"terms": [expr_str(t) for t in terms][:6]})
    return res


def rule_canon(m):
    """T-CANON (with T-DIAG on removal guards)."""
    res = RuleResult("T-CANON")
    fn = m.fns.get("canonicalize")
    if fn is None:
        raise AnchorError("no canonicalize")
    site = "canonicalize"
    stmts = fn["b"]["s"]
    # segment the body: [let non_canonical_rows..; for el in T_uprooted..*; for [row] in non_canonical_rows..] per relation, then clears
    i = 0
    drains = []     # (type snake, element index field, node)
    rel_done = {}
    uprooted_cleared = {}
    pending_drains = []
    acc = None
    for s in stmts:
        if kind(s) == "let":
            pn = s["p"]
            while kind(pn) == "ptype":
                pn = pn["p"]
            if kind(pn) == "pid" and expr_str(s["e"]) == "Vec::new()":
                acc = pn["n"]       # the accumulator of stale rows (any name)
                if pending_drains:
                    res.bad("T-CANON:canonicalize:drained-not-processed", m.where(s, site), "rows drained from %s are dropped" % [d[1] for d in pending_drains])
                pending_drains = []
                continue
            res.bad("T-CANON:canonicalize:unrecognised", m.where(s, site), "unrecognised let in canonicalize")
            continue
        e = stmt_expr(s)
        if kind(e) == "for":
            it = e["e"]
            # for el in self.T_uprooted.iter().copied() { if let Some(rows) = self.EI.remove(&el.0) { non_canonical_rows.push(rows); } }
            up = None
            x = it
            while mcall(x):
                if self_field(x["r"]) and self_field(x["r"]).endswith("_uprooted"):
                    up = self_field(x["r"])[:-9]
                x = x["r"]
            if up is not None:
                names = pat_names(e["p"])
                rem = [c for c in walk(e["b"]) if mcall(c, "remove") and self_field(c["r"]) and self_field(c["r"]).endswith("_element_index")]
                push = [c for c in walk(e["b"]) if mcall(c, "push") and acc is not None and is_path(c["r"], acc)]
                if len(rem) == 1 and len(push) == 1 and names and len(names) == 1:
                    arg = rem[0]["a"][0] if rem[0]["a"] else None
                    if expr_str(arg) not in ("&%s.0" % names[0],):
                        res.bad("T-CANON:canonicalize:drain-key", m.where(rem[0], site), "element index drained with key %s" % expr_str(arg))
                    pending_drains.append((up, self_field(rem[0]["r"]), e))
                else:
                    res.bad("T-CANON:canonicalize:drain-shape", m.where(e, site), "uprooted loop for %s does not drain exactly one element index" % up)
                continue
            # for [el0, ..] in non_canonical_rows.into_iter().flatten() { .. }
            if acc is not None and any(is_path(x, acc) for x in walk(it)):
                names = pat_names(e["p"])
                rel = _canon_rel_block(res, m, e, names, pending_drains, site)
                if rel:
                    rel_done[rel] = rel_done.get(rel, 0) + 1
                pending_drains = []
                continue
            res.bad("T-CANON:canonicalize:unrecognised", m.where(e, site), "unrecognised loop in canonicalize")
            continue
        if mcall(e, "clear") and self_field(e["r"]) and self_field(e["r"]).endswith("_uprooted"):
            uprooted_cleared[self_field(e["r"])[:-9]] = e["ln"]
            continue
        res.bad("T-CANON:canonicalize:unrecognised", m.where(s, site), "unrecognised statement in canonicalize: %s" % (expr_str(e) if e else kind(s)))
    last_loop = max([s["ln"] for s in stmts if kind(stmt_expr(s) or {}) == "for"] + [0])
    for r in m.rels:
        n = rel_done.get(r, 0)
        if n == 1:
            res.ok()
        else:
            res.bad("T-CANON:canonicalize:rel-blocks=%d" % n, m.where(fn, site), "relation %s is canonicalised by %d blocks" % (r, n))
    for ts in m.types:
        ln = uprooted_cleared.get(ts)
        if ln is None:
            res.bad("T-CANON:canonicalize:uprooted-not-cleared", m.where(fn, site), "%s_uprooted is not cleared" % ts)
        elif ln < last_loop:
            res.bad("T-CANON:canonicalize:uprooted-cleared-early", m.where(fn, site), "%s_uprooted is cleared before all relations were processed" % ts)
        else:
            res.ok()
    # uprooted vectors are cleared nowhere else
    for name, f in m.fns.items():
        if name == "canonicalize":
            continue
        for c in walk(f["b"]):
            if mcall(c) and c["m"] in ("clear", "drain", "pop", "truncate", "remove", "retain") and self_field(c["r"]) and self_field(c["r"]).endswith("_uprooted"):
                res.bad("T-CANON:other:uprooted-shrunk", m.where(c, name), "%s shrinks %s" % (name, self_field(c["r"])))
    return res


def _canon_rel_block(res, m, loop, names, drains, site):
    body = loop["b"]["s"]
    # the relation is identified by the insert_<rel> call
    ins = [c for c in walk(loop["b"]) if mcall(c) and is_path(c["r"], "self") and c["m"].startswith("insert_")]
    if len(ins) != 1 or ins[0]["m"][7:] not in m.rels:
        res.bad("T-CANON:canonicalize:no-reinsert", m.where(loop, site), "row loop does not re-insert through exactly one insert_<rel>")
        return None
    rel = ins[0]["m"][7:]
    r = m.rels[rel]
    ar = len(r.arg_types)
    if names is None or len(names) != ar or len(set(names)) != ar:
        res.bad("T-CANON:canonicalize:row-pattern", m.where(loop, site), "row pattern for %s is not %d distinct variables" % (rel, ar))
        return rel
    col_var = names   # rows are stored in natural column order (T-INS iv)
    # drains: one per distinct type of the arity, from this relation's element indices
    want = {(m.type_snake_of_camel(tc), m.elem_index.get((rel, m.type_snake_of_camel(tc)))) for tc in set(r.arg_types)}
    got = {(d[0], d[1]) for d in drains}
    for w in want - got:
        res.bad("T-CANON:canonicalize:type-not-drained", m.where(loop, site), "rows of %s containing uprooted %s elements are not collected" % (rel, w[0]))
    for g in got - want:
        res.bad("T-CANON:canonicalize:foreign-drain", m.where(loop, site), "block of %s drains %s with %s_uprooted" % (rel, g[1], g[0]))
    if want == got:
        res.ok()
    # re-insert: insert_R(T0(el0), ..) in natural order
    args = []
    for a in ins[0]["a"]:
        if kind(a) == "call" and len(a["a"]) == 1 and kind(a["a"][0]) == "path":
            args.append((a["f"].get("p"), a["a"][0]["p"]))
        else:
            args.append((None, expr_str(a)))
    if [a[1] for a in args] == list(col_var) and [a[0] for a in args] == r.arg_types:
        res.ok()
    else:
        res.bad("T-CANON:canonicalize:reinsert-args", m.where(ins[0], site), "%s re-inserted with arguments %s" % (rel, args))
    # the removal chain
    chains = []
    for s in body:
        e = s.get("e") if kind(s) in ("let", "expr") else None
        if kind(e) == "if" and index_call(e["c"]) and index_call(e["c"])[1] == "remove":
            chains.append((s, e))
    if len(chains) != 1:
        res.bad("T-CANON:canonicalize:chain-shape", m.where(loop, site), "expected one if-chain of primary removals for %s, found %d" % (rel, len(chains)))
        return rel
    s_chain, e = chains[0]
    branches = []
    cur = e
    while kind(cur) == "if":
        branches.append(cur)
        cur = cur["e"]
    final_else = cur
    flagvar = None
    if kind(s_chain) == "let" and kind(s_chain["p"]) == "pid":
        flagvar = s_chain["p"]["n"]
    seen_age = {}
    for br in branches:
        ic = index_call(br["c"])
        if not ic or ic[1] != "remove":
            res.bad("T-CANON:canonicalize:chain-cond", m.where(br, site), "condition %s in removal chain of %s" % (expr_str(br["c"]), rel))
            continue
        pf = m.by_name.get(ic[0])
        if pf is None or pf.rel != rel or pf.is_typeset or pf.eqs is not None or pf.copy == "all":
            res.bad("T-CANON:canonicalize:primary-kind", m.where(br, site), "primary removal from %s: must be a plain (own) full index of %s" % (ic[0], rel))
            continue
        if ic[2] != expected_row(pf, col_var):
            res.bad("T-CANON:canonicalize:primary-row", m.where(br, site), "row %s removed from %s, expected %s" % (ic[2], pf.name, expected_row(pf, col_var)))
            continue
        if pf.age in seen_age:
            res.bad("T-CANON:canonicalize:age-twice", m.where(br, site), "two branches for %s tuples of %s" % (pf.age, rel))
            continue
        seen_age[pf.age] = br
        unknown = []
        writes = collect_writes(br["t"]["s"], "remove", unknown=unknown)
        # the branch value must be `true`
        tail = [u for u in unknown if not (kind(stmt_expr(u)) == "lit")]
        for u in tail:
            res.bad("T-CANON:canonicalize:branch-body", m.where(u, site), "unrecognised statement in removal branch of %s" % rel)
        vals = [stmt_expr(u)["v"] for u in unknown if kind(stmt_expr(u)) == "lit"]
        if flagvar and vals != ["true"]:
            res.bad("T-CANON:canonicalize:branch-value", m.where(br, site), "removal branch of %s does not evaluate to true" % rel)
        required = [f for f in m.family(rel, pf.age, copies=(None, "own")) if f.name != pf.name]
        check_family_writes(res, m, rel, writes, required, col_var, site, br, "remove")
        res.sample({"rel": rel, "age": pf.age, "primary": pf.name, "secondary": [f.name for f in required]})
    for age in ("new", "old"):
        if age in seen_age:
            res.ok()
        else:
            res.bad("T-CANON:canonicalize:age-missing:" + age, m.where(loop, site), "%s tuples of %s are not rewritten" % (age, rel))
    if "new" in seen_age and "old" in seen_age and branches.index(seen_age["new"]) > branches.index(seen_age["old"]):
        # order is irrelevant for correctness (a row is in at most one age); not reported
        pass
    # `if !flag { continue; }` must precede the re-insert; final else must be false
    if flagvar:
        if not (kind(final_else) == "block" and len(final_else["s"]) == 1 and kind(stmt_expr(final_else["s"][0])) == "lit" and stmt_expr(final_else["s"][0])["v"] == "false"):
            res.bad("T-CANON:canonicalize:else-value", m.where(loop, site), "row of %s found in no index is not flagged false" % rel)
        guard_ok = False
        for s in body:
            e2 = stmt_expr(s)
            if kind(e2) == "if" and kind(e2["c"]) == "un" and e2["c"]["op"] == "!" and is_path(e2["c"]["e"], flagvar) \
                    and len(e2["t"]["s"]) == 1 and kind(stmt_expr(e2["t"]["s"][0])) == "continue" and e2["ln"] < ins[0]["ln"]:
                guard_ok = True
        if guard_ok:
            res.ok()
        else:
            res.bad("T-CANON:canonicalize:reinsert-unguarded", m.where(loop, site), "rows of %s that were in no index are re-inserted" % rel)
    return rel


def rule_delta(m):
    """T-DELTA."""
    res = RuleResult("T-DELTA")
    want = {}
    for r, rel in m.rels.items():
        want["new_" + r] = ("tuples", r, len(rel.arg_types))
    for ts in m.types:
        want["new_%s_equalities" % ts] = ("equalities", ts, 2)
    for r, rel in m.rels.items():
        if rel.has_define:
            want["new_%s_def" % r] = ("defs", r, len(rel.arg_types) - 1)
    for name, (kindv, tgt, n) in want.items():
        if m.delta.get(name) == n:
            res.ok()
        else:
            res.bad("T-DELTA:struct:%s-vector" % kindv, m.path + " ModelDelta", "ModelDelta lacks %s: Vec<[u32; %d]> (has %s)" % (name, n, m.delta.get(name)))
    for name in m.delta:
        if name not in want:
            res.bad("T-DELTA:struct:unexpected-vector", m.path + " ModelDelta", "ModelDelta has vector %s with no relation/type/definable function" % name)
    # new(): all Vec::new()
    fn = m.delta_fns.get("new")
    if fn is None:
        raise AnchorError("ModelDelta::new missing")
    lit = [n for n in walk(fn["b"]) if kind(n) == "struct"]
    inits = {fv["n"]: expr_str(fv["e"]) for fv in lit[0]["f"]} if lit else {}
    for name in m.delta:
        if inits.get(name) == "Vec::new()":
            res.ok()
        else:
            res.bad("T-DELTA:new:init", m.where(fn, "ModelDelta::new"), "%s initialised with %s" % (name, inits.get(name)))
    # apply_*: each vector drained by exactly one apply function of its kind, calling the right model function
    drained = {}
    for fname, kindv, callee_prefix in (("apply_equalities", "equalities", "equate_"), ("apply_tuples", "tuples", "insert_"), ("apply_func_defs", "defs", "define_")):
        fn = m.delta_fns.get(fname)
        if fn is None:
            raise AnchorError("ModelDelta::%s missing" % fname)
        model_param = None
        for p in fn["params"]:
            if kind(p) == "param" and kind(p["p"]) == "pid":
                model_param = p["p"]["n"]
        for s in fn["b"]["s"]:
            e = stmt_expr(s)
            if kind(e) != "for":
                res.bad("T-DELTA:%s:unrecognised" % fname, m.where(s, fname), "unrecognised statement in %s" % fname)
                continue
            it = e["e"]
            vec = self_field(it["r"]) if mcall(it, "drain") else None
            full = mcall(it, "drain") and len(it["a"]) == 1 and kind(it["a"][0]) == "range" and it["a"][0]["lo"] is None and it["a"][0]["hi"] is None
            if vec is None or not full:
                res.bad("T-DELTA:%s:not-drain-all" % fname, m.where(e, fname), "%s iterates %s instead of draining a whole vector" % (fname, expr_str(it)))
                continue
            names = pat_names(e["p"])
            w = want.get(vec)
            if w is None or w[0] != kindv:
                res.bad("T-DELTA:%s:wrong-kind" % fname, m.where(e, fname), "%s drains %s" % (fname, vec))
                continue
            calls = [c for c in walk(e["b"]) if mcall(c) and is_path(c["r"], model_param)]
            exp_callee = callee_prefix + w[1]
            ok = len(calls) == 1 and calls[0]["m"] == exp_callee
            if ok:
                args = []
                for a in calls[0]["a"]:
                    if mcall(a, "into") and kind(a["r"]) == "path":
                        args.append(a["r"]["p"])
                    else:
                        args.append(None)
                ok = names is not None and args == names and len(set(names)) == len(names) and len(names) == w[2]
            if ok:
                drained[vec] = drained.get(vec, 0) + 1
                res.ok()
            else:
                res.bad("T-DELTA:%s:call" % fname, m.where(e, fname), "%s: vector %s is not applied through %s with its row in order" % (fname, vec, exp_callee))
    for name in want:
        n = drained.get(name, 0)
        if n == 1:
            res.ok()
        else:
            res.bad("T-DELTA:apply:drained=%d:%s" % (n, want[name][0]), m.path + " impl ModelDelta", "vector %s is drained by %d apply functions" % (name, n))
    res.sample({"vectors": sorted(m.delta)[:8]})
    return res


def rule_func(m):
    """T-FUNC: every function relation has a functionality module; (coverage of relations/types in the
    maintenance functions is enforced by T-DIRTY/T-MOVE/T-CANON/T-DELTA themselves)."""
    res = RuleResult("T-FUNC")
    for r, rel in m.rels.items():
        if not rel.is_func:
            continue
        name = "functionality_" + r
        if name in m.extern_fns:
            res.ok()
        else:
            res.bad("T-FUNC:module:missing", m.path, "function %s has no functionality rule module" % r)
    res.sample({"functions": [r for r, x in m.rels.items() if x.is_func][:8]})
    return res
