"""T-LOOP and T-PENDING: path-sensitive typestate analysis of the emitted `close_until`.

The function body is interpreted abstractly over a small flag domain; all paths (including the loop
back edge, to a fixed point) are explored. Nothing is executed.

Flags
  canon     tables are canonical (canonicalize ran after the last equate / since entry)
  all_ok    inherited (`all`) copies are current (recompute_model_indices ran after the last table change)
  called    set of rule modules run since the last table change
  clean     `!self.is_dirty()` was observed and nothing changed since
  cond      `condition(self)` was observed true and nothing changed since
  pending   kinds of ModelDelta vectors that may be non-empty {eq, tup, def}
  have      the local delta exists (None before its let)
"""
from .core import RuleResult
from .emodel import AnchorError
from .tree import expr_str, kind, is_path, mcall, self_field, stmt_expr, walk, nospace, base_field

KINDS = ("eq", "tup", "def")


class State:
    __slots__ = ("canon", "all_ok", "called", "clean", "cond", "pending", "have", "moved")

    def __init__(self):
        self.canon = False
        self.all_ok = False
        self.called = frozenset()
        self.clean = False
        self.cond = False
        self.pending = frozenset()
        self.have = False
        self.moved = False    # True: no tuple has entered a new index since the last move_new_to_old

    def key(self):
        return (self.canon, self.all_ok, self.called, self.clean, self.cond, self.pending, self.have, self.moved)

    def copy(self):
        s = State()
        for a in State.__slots__:
            setattr(s, a, getattr(self, a))
        return s


class LoopAnalysis:
    def __init__(self, m, res, pres):
        self.m = m
        self.res = res          # T-LOOP
        self.pres = pres        # T-PENDING
        self.fn = m.fns.get("close_until")
        if self.fn is None:
            raise AnchorError("no close_until")
        ps = [p for p in self.fn["params"] if kind(p) == "param"]
        if len(ps) != 1 or kind(ps[0]["p"]) != "pid":
            raise AnchorError("close_until does not take exactly one condition parameter")
        self.condname = ps[0]["p"]["n"]
        self.modules = set(m.extern_fns)
        self.kinds = {"eq", "tup"} | ({"def"} if any(v.endswith("_def") for v in m.delta) else set())
        self.delta_var = None
        self.persist_field = None
        self.reported = set()
        self.site = "close_until"
        self.env_lits = {}
        self.returns = 0
        self.mod_calls_per_iter = {}

    def bad(self, res, key, node, msg):
        if (key, node.get("ln")) in self.reported:
            return
        self.reported.add((key, node.get("ln")))
        res.bad(key, self.m.where(node, self.site), msg)

    # -- events ---------------------------------------------------------------
    def table_change(self, st):
        st.clean = False
        st.cond = False
        st.called = frozenset()

    def ev_module(self, st, name, node):
        if not (st.canon and st.all_ok):
            self.bad(self.res, "T-LOOP:close_until:rules-on-stale-tables:%s" % ("not-canonical" if not st.canon else "all-copies-stale"), node,
                     "rule module %s runs while tables are %s" % (name, "not canonical" if not st.canon else "not recomputed"))
        if name in st.called:
            self.bad(self.res, "T-LOOP:close_until:module-called-twice", node, "rule module %s runs twice on the same tables" % name)
        st.called = st.called | {name}
        if st.have:
            st.pending = frozenset(self.kinds)
        self.res.ok()

    def ev_move(self, st, node):
        missing = self.modules - st.called
        if missing and not st.moved:
            self.bad(self.res, "T-LOOP:close_until:moved-unseen", node,
                     "move_new_to_old runs although %s did not see the new tuples" % sorted(missing)[:3])
        st.moved = True
        st.clean = False
        st.cond = False
        self.res.ok()

    def ev_insertion(self, st):
        st.moved = False
        st.all_ok = self.no_models
        self.table_change(st)

    def ev_canonicalize(self, st, node):
        st.canon = True
        self.ev_insertion(st)
        self.res.ok()

    def ev_recompute(self, st, node):
        st.all_ok = True
        st.clean = False
        st.cond = False
        self.res.ok()

    def ev_apply(self, st, which, node):
        if not st.have:
            self.bad(self.res, "T-LOOP:close_until:apply-without-delta", node, "apply_%s on a delta that does not exist yet" % which)
        if which == "equalities":
            st.pending = st.pending - {"eq"}
            st.canon = False
            self.table_change(st)
            st.moved = st.moved  # equalities do not add tuples
        elif which == "tuples":
            st.pending = st.pending - {"tup"}
            if not st.canon:
                # insert_R maps its arguments to roots itself; harmless, not reported
                pass
            self.ev_insertion(st)
        elif which == "func_defs":
            if not st.clean:
                self.bad(self.res, "T-LOOP:close_until:defs-before-saturation", node,
                         "apply_func_defs runs without `!self.is_dirty()` having been observed: new elements before the surjective rules are saturated")
            st.pending = st.pending - {"def"}
            self.ev_insertion(st)
        self.res.ok()

    def ev_return(self, st, val, node):
        self.returns += 1
        if val == "true":
            if not st.cond:
                self.bad(self.res, "T-LOOP:close_until:return-true-without-condition", node, "`return true` on a path where condition(self) was not just observed to hold")
            else:
                self.res.ok()
        elif val == "false":
            if not st.clean:
                self.bad(self.res, "T-LOOP:close_until:return-false-dirty", node, "`return false` on a path where the model was not just observed to be clean")
            else:
                self.res.ok()
        else:
            self.bad(self.res, "T-LOOP:close_until:return-value", node, "return of %s" % val)
        # T-PENDING
        if st.have and st.pending:
            self.bad(self.pres, "T-PENDING:close_until:return-%s:pending=%s" % (val, "+".join(sorted(st.pending))), node,
                     "`return %s` while collected %s are still in the local delta: they are dropped" % (val, sorted(st.pending)))
        else:
            self.pres.ok()

    # -- interpreter ------------------------------------------------------------
    def run(self):
        st = State()
        # a theory without model relations has an empty recompute_model_indices: `all` copies do not exist
        rc = self.m.fns.get("recompute_model_indices")
        if rc is None:
            raise AnchorError("no recompute_model_indices")
        self.no_models = not rc["b"]["s"] and not self.m.model_rels
        st.all_ok = self.no_models
        outs = self.block(self.fn["b"], [st])
        if outs:
            self.bad(self.res, "T-LOOP:close_until:falls-through", self.fn, "close_until can fall off its end")
        return self

    def block(self, b, states):
        for s in b["s"]:
            if not states:
                break
            states = self.stmt(s, states)
        return states

    def dedup(self, states):
        seen = {}
        for s in states:
            seen.setdefault(s.key(), s)
        return list(seen.values())

    def stmt(self, s, states):
        k = kind(s)
        if k == "let":
            return self.let(s, states)
        if k == "item":
            return states
        e = stmt_expr(s)
        return self.expr(e, states, s)

    def let(self, s, states):
        pn = s["p"]
        while kind(pn) == "ptype":
            pn = pn["p"]
        name = pn["n"] if kind(pn) == "pid" else None
        e = s["e"]
        txt = expr_str(e) if e else ""
        if name and kind(e) == "struct" and e["p"] in self.m.env_structs:
            self.env_lits[name] = e
            return states
        if name and (txt == "ModelDelta::new()" or "ModelDelta" in txt or any(self_field(x) and "delta" in self_field(x) for x in walk(e))):
            self.delta_var = name
            persisted = [self_field(x) for x in walk(e) if self_field(x)]
            out = []
            for st in states:
                st = st.copy()
                st.have = True
                if persisted:
                    self.persist_field = persisted[0]
                    st.pending = frozenset(self.kinds)
                else:
                    st.pending = frozenset()
                out.append(st)
            return out
        raise AnchorError("close_until: let statement not recognised: %s" % txt)

    def is_cond_call(self, e):
        return kind(e) == "call" and is_path(e["f"], self.condname) and len(e["a"]) == 1 and is_path(e["a"][0], "self")

    def expr(self, e, states, node):
        k = kind(e)
        if k == "loop":
            head = self.dedup(states)
            seen = {s.key() for s in head}
            work = list(head)
            exits = []
            rounds = 0
            while work:
                rounds += 1
                if rounds > 64:
                    raise AnchorError("close_until: loop analysis does not converge")
                outs = self.block(e["b"], [s.copy() for s in work])
                work = []
                for o in outs:
                    if o.key() not in seen:
                        seen.add(o.key())
                        work.append(o)
            return exits
        if k == "if":
            c = e["c"]
            then_states, else_states = [], []
            if self.is_cond_call(c):
                for st in states:
                    if not (st.canon and st.all_ok):
                        self.bad(self.res, "T-LOOP:close_until:condition-on-stale-tables:%s" % ("not-canonical" if not st.canon else "all-copies-stale"), e,
                                 "condition(self) is evaluated while tables are %s" % ("not canonical" if not st.canon else "not recomputed"))
                    else:
                        self.res.ok()
                    t = st.copy()
                    t.cond = True
                    then_states.append(t)
                    else_states.append(st.copy())
            elif kind(c) == "un" and c["op"] == "!" and mcall(c["e"], "is_dirty") and is_path(c["e"]["r"], "self"):
                for st in states:
                    t = st.copy()
                    t.clean = True
                    then_states.append(t)
                    else_states.append(st.copy())
            elif mcall(c, "is_dirty") and is_path(c["r"], "self"):
                for st in states:
                    t = st.copy()
                    then_states.append(t)
                    f = st.copy()
                    f.clean = True
                    else_states.append(f)
            else:
                raise AnchorError("close_until: branch condition not recognised: %s" % expr_str(c))
            outs = self.block(e["t"], then_states)
            if e["e"] is not None:
                if kind(e["e"]) == "block":
                    outs += self.block(e["e"], else_states)
                else:
                    outs += self.expr(e["e"], else_states, e["e"])
            else:
                outs += else_states
            return self.dedup(outs)
        if k == "return":
            val = expr_str(e["e"]) if e["e"] else "()"
            for st in states:
                self.ev_return(st, val, e)
            return []
        if k == "block":
            return self.block(e, states)
        if k == "assign":
            # self.F = delta  (persisting the pending delta)
            f = self_field(e["lhs"])
            if f and self.delta_var and is_path(e["rhs"], self.delta_var):
                out = []
                for st in states:
                    st = st.copy()
                    st.have = False
                    st.pending = frozenset()
                    out.append(st)
                self.persist_field = self.persist_field or f
                return out
            raise AnchorError("close_until: assignment not recognised: %s" % expr_str(e))
        if k == "mcall":
            if is_path(e["r"], "self") and not e["a"]:
                meth = e["m"]
                out = []
                for st in states:
                    st = st.copy()
                    if meth == "canonicalize":
                        self.ev_canonicalize(st, e)
                    elif meth == "recompute_model_indices":
                        self.ev_recompute(st, e)
                    elif meth == "move_new_to_old":
                        self.ev_move(st, e)
                    else:
                        raise AnchorError("close_until: call of self.%s not recognised" % meth)
                    out.append(st)
                return out
            if self.delta_var and is_path(e["r"], self.delta_var) and e["m"].startswith("apply_") and len(e["a"]) == 1 and is_path(e["a"][0], "self"):
                which = e["m"][len("apply_"):]
                if which not in ("equalities", "tuples", "func_defs"):
                    raise AnchorError("close_until: %s not recognised" % e["m"])
                out = []
                for st in states:
                    st = st.copy()
                    self.ev_apply(st, which, e)
                    out.append(st)
                return out
            raise AnchorError("close_until: method call not recognised: %s" % expr_str(e))
        if k == "call" and kind(e["f"]) == "path" and e["f"]["p"] in self.modules:
            name = e["f"]["p"]
            if len(e["a"]) != 1 or kind(e["a"][0]) != "path" or e["a"][0]["p"] not in self.env_lits:
                raise AnchorError("close_until: rule module %s not called with a freshly built env" % name)
            self.check_env(name, self.env_lits.pop(e["a"][0]["p"]), e)
            out = []
            for st in states:
                st = st.copy()
                self.ev_module(st, name, e)
                out.append(st)
            return out
        raise AnchorError("close_until: statement not recognised: %s" % expr_str(e))

    def check_env(self, modname, lit, node):
        m = self.m
        ext = m.extern_fns[modname]
        if lit["p"] != ext["env"]:
            self.bad(self.res, "T-LOOP:close_until:env-type", node, "module %s is passed a %s, declared to take %s" % (modname, lit["p"], ext["env"]))
            return
        sd = m.env_structs[lit["p"]]
        want = {f["n"]: nospace(f["t"]) for f in sd["fields"]}
        got = {}
        for fv in lit["f"]:
            got.setdefault(fv["n"], []).append(fv["e"])
        if lit.get("rest") is not None or set(got) != set(want) or any(len(v) != 1 for v in got.values()):
            self.bad(self.res, "T-LOOP:close_until:env-fields", node, "env literal for %s has fields %s, struct has %s" % (modname, sorted(got), sorted(want)))
            return
        good = True
        for name, (e,) in got.items():
            t = want[name]
            if name == "phantom":
                continue
            if t.startswith("&'amut"):
                ok = kind(e) == "ref" and e["mut"] and base_field(e, self.delta_var or "delta") == name
            else:
                src = self_field(e) if (kind(e) == "ref" and not e["mut"]) else None
                f = m.by_name.get(src or "")
                # rule envs read the `all` copy of model relations, the plain field otherwise
                ok = f is not None and f.base == name and f.copy in (None, "all")
            if not ok:
                good = False
                self.bad(self.res, "T-LOOP:close_until:env-binding", e, "env field %s of %s is bound to %s" % (name, modname, expr_str(e)))
        if good:
            self.res.ok()
            self.res.count("env_literals")


def rule_loop_pending(m):
    res = RuleResult("T-LOOP")
    pres = RuleResult("T-PENDING")
    la = LoopAnalysis(m, res, pres).run()
    # every declared module is called somewhere in the loop
    called = set()
    for c in walk(la.fn["b"]):
        if kind(c) == "call" and kind(c["f"]) == "path" and c["f"]["p"] in m.extern_fns:
            called.add(c["f"]["p"])
    for name in m.extern_fns:
        if name in called:
            res.ok()
        else:
            res.bad("T-LOOP:close_until:module-never-called", m.where(la.fn, "close_until"), "rule module %s is declared but never called" % name)
    # close() delegates to close_until with a constant-false condition
    cl = m.fns.get("close")
    if cl is None:
        raise AnchorError("no close()")
    calls = [c for c in walk(cl["b"]) if mcall(c, "close_until") and is_path(c["r"], "self")]
    okc = False
    if len(calls) == 1 and len(calls[0]["a"]) == 1 and kind(calls[0]["a"][0]) == "closure":
        b = calls[0]["a"][0]["b"]
        if kind(b) == "lit" and b["v"] == "false":
            okc = True
    if okc:
        res.ok()
    else:
        res.bad("T-LOOP:close:not-constant-false", m.where(cl, "close"), "close() is not close_until(|_| false)")
    # .. on every path: conclusions collected by an interrupted close_until are kept in the model and only close_until applies
    # them, and is_dirty() does not see them; a path through close() that does not reach the call leaves them pending
    skipping = [x for x in walk(cl["b"]) if kind(x) in ("return", "try", "break") or (kind(x) == "macro" and x.get("p") in ("panic", "unreachable", "todo"))]
    top = [stmt_expr(st) if kind(st) == "expr" else st for st in cl["b"]["s"]]
    conditional = [x for x in walk(cl["b"]) if kind(x) in ("if", "match", "while", "loop", "for") and any(y is calls[0] for y in walk(x))] if calls else []
    if calls and not skipping and not conditional:
        res.ok()
    elif calls:
        res.bad("T-LOOP:close:path-without-close_until", m.where(cl, "close"),
                "close() has a path that does not call close_until (an early return or a conditional call): pending conclusions of an interrupted close_until are never applied")
    res.sample({"modules": len(m.extern_fns), "returns_seen": la.returns, "delta_kinds": sorted(la.kinds), "persist_field": la.persist_field})
    pres.sample({"delta_var": la.delta_var, "kinds": sorted(la.kinds), "persist_field": la.persist_field})
    return res, pres
