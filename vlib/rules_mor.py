"""T-MOR (protocol of recompute_model_indices), T-AGE (age discipline / who writes which age),
T-PRUNE-USE (children handed out mutably are not shrunk)."""
import json
import re

from .core import RuleResult
from .emodel import AnchorError
from .tree import (array_names, expr_str, kind, is_path, mcall, pat_names, self_field, stmt_expr, walk, nospace, strip_ln)


def model_types(m):
    """type snake names T with a morphism type T_mor and relations T_mor_dom / T_mor_cod."""
    out = []
    for ts in m.types:
        if ts + "_mor" in m.types and (ts + "_mor_dom") in m.rels and (ts + "_mor_cod") in m.rels:
            out.append(ts)
    return out


def member_types(m):
    """type snake names t with a relation t_mor_app."""
    return [ts for ts in m.types if (ts + "_mor_app") in m.rels]


def rule_mor(m):
    res = RuleResult("T-MOR")
    fn = m.fns.get("recompute_model_indices")
    if fn is None:
        raise AnchorError("no recompute_model_indices")
    site = "recompute_model_indices"
    stmts = fn["b"]["s"]
    mts = model_types(m)
    sorted_vars = {}
    i = 0
    # ---- 1. topological sorts
    for s in stmts:
        if kind(s) != "let" or kind(s["p"]) not in ("pid", "ptype"):
            continue
        pn = s["p"]
        while kind(pn) == "ptype":
            pn = pn["p"]
        calls = [c for c in walk(s["e"]) if kind(c) == "call" and kind(c["f"]) == "path" and c["f"]["p"].endswith("morphism_toposort")]
        if not calls:
            continue
        c = calls[0]
        args = [self_field(a) if (kind(a) == "ref" and not a["mut"]) else None for a in c["a"]]
        fields = [m.by_name.get(a or "") for a in args]
        ok = len(args) == 6 and all(f is not None for f in fields)
        mt = None
        if ok:
            d_new, d_old, c_new, c_old, o_new, o_old = fields
            mt = o_new.rel if o_new.is_typeset else None
            ok = (mt in mts
                  and (d_new.rel, d_new.age, d_new.order, d_new.eqs, d_new.copy) == (mt + "_mor_dom", "new", (1, 0), None, None)
                  and (d_old.rel, d_old.age, d_old.order, d_old.eqs, d_old.copy) == (mt + "_mor_dom", "old", (1, 0), None, None)
                  and (c_new.rel, c_new.age, c_new.order, c_new.eqs, c_new.copy) == (mt + "_mor_cod", "new", (0, 1), None, None)
                  and (c_old.rel, c_old.age, c_old.order, c_old.eqs, c_old.copy) == (mt + "_mor_cod", "old", (0, 1), None, None)
                  and o_new.is_typeset and o_old.is_typeset and o_old.rel == mt and (o_new.age, o_old.age) == ("new", "old"))
        if ok:
            res.ok()
            sorted_vars[pn["n"]] = mt
            res.sample({"toposort_for": mt, "args": args})
        else:
            res.bad("T-MOR:recompute:toposort-args", m.where(c, site),
                    "morphism_toposort is called with %s; expected dom(order 1_0) new, old; cod(order 0_1) new, old; object set new, old of one model type" % args)
        # the error of the sort must not be swallowed into an empty order
        if not any(mcall(x) and x["m"] in ("expect", "unwrap") for x in walk(s["e"])) and not any(kind(x) == "try" for x in walk(s["e"])):
            res.bad("T-MOR:recompute:toposort-error-ignored", m.where(s, site), "result of morphism_toposort is not unwrapped/propagated")
    for mt in mts:
        n = list(sorted_vars.values()).count(mt)
        if n == 1:
            res.ok()
        else:
            res.bad("T-MOR:recompute:toposort-count=%d" % n, m.where(fn, site), "model type %s is sorted %d times" % (mt, n))
    # ---- 2. one block per own/all pair
    blocks = {}
    cur = None
    for s in stmts:
        if kind(s) == "let":
            pn = s["p"]
            name = pn["n"] if kind(pn) == "pid" else None
            e = s["e"]
            if name and name.endswith("_all") and mcall(e, "clone") and self_field(e["r"]) == name[:-4] + "_own":
                cur = {"base": name[:-4], "start": s, "loops": [], "assign": None, "own_alias": False}
                blocks.setdefault(name[:-4], []).append(cur)
                continue
            if name and name.endswith("_own") and kind(e) == "ref" and e["mut"] and self_field(e) == name and cur and cur["base"] == name[:-4]:
                cur["own_alias"] = True
                continue
            continue
        e = stmt_expr(s)
        if kind(e) == "for" and cur is not None:
            cur["loops"].append(e)
        elif kind(e) == "assign" and self_field(e["lhs"]) and cur is not None and self_field(e["lhs"]) == cur["base"] + "_all" and is_path(e["rhs"], cur["base"] + "_all"):
            cur["assign"] = e
            cur = None
    pairs = sorted({f.base for f in m.index_fields if f.copy})
    mem = member_types(m)
    norm_blocks = {}
    for base in pairs:
        bl = blocks.get(base, [])
        if len(bl) != 1:
            res.bad("T-MOR:recompute:block-count=%d" % len(bl), m.where(fn, site), "own/all pair %s is recomputed by %d blocks" % (base, len(bl)))
            continue
        b = bl[0]
        f_own = m.by_name[base + "_own"]
        if b["assign"] is None or len(b["loops"]) != 1:
            res.bad("T-MOR:recompute:block-shape", m.where(b["start"], site), "block of %s: %d loops, final assignment %s" % (base, len(b["loops"]), "present" if b["assign"] else "missing"))
            continue
        loop = b["loops"][0]
        # iterates the sorted morphisms of the parent model type, in order
        it = loop["e"]
        src = it["r"]["p"] if mcall(it, "iter") and kind(it["r"]) == "path" and not it["a"] else None
        rel = m.rels[f_own.rel]
        parent_tc = rel.arg_types[0]
        parent_ts = m.type_snake_of_camel(parent_tc)
        if src is None or sorted_vars.get(src) != parent_ts:
            res.bad("T-MOR:recompute:loop-source", m.where(loop, site), "block of %s iterates %s, not the sorted morphisms of %s in order" % (base, expr_str(it), parent_ts))
            continue
        pat = loop["p"]
        binds = {}
        if kind(pat) == "pstruct" and pat["p"].endswith("MorphismWithSignature"):
            for pf in pat["f"]:
                if kind(pf["p"]) == "pid":
                    binds[pf["n"]] = pf["p"]["n"]
        if set(binds) != {"morph", "dom", "cod"}:
            res.bad("T-MOR:recompute:loop-pattern", m.where(loop, site), "block of %s does not destructure morph/dom/cod" % base)
            continue
        # inside (possibly below the before-model loops): get(*dom) of the *all* accumulator, mapped, insert_restriction(*cod, ..)
        body_nodes = list(walk(loop["b"]))
        gets = [x for x in body_nodes if mcall(x, "get") and kind(x["r"]) == "path" and x["r"]["p"] == base + "_all" and len(x["a"]) == 1 and expr_str(x["a"][0]) == "*" + binds["dom"]]
        inserts = [x for x in body_nodes if mcall(x, "insert_restriction") and kind(x["r"]) == "path" and x["r"]["p"] == base + "_all"]
        mapped = [x for x in body_nodes if mcall(x, "mapped")]
        good = True
        if len(gets) != 1:
            good = False
            res.bad("T-MOR:recompute:dom-restriction", m.where(loop, site), "block of %s does not read the domain's restriction of the accumulated `all` copy exactly once" % base)
        if len(inserts) != 1 or len(inserts[0]["a"]) != 2 or expr_str(inserts[0]["a"][0]) != "*" + binds["cod"]:
            good = False
            res.bad("T-MOR:recompute:cod-insert", m.where(loop, site), "block of %s does not insert exactly one restriction under the codomain" % base)
        if len(mapped) != 1:
            good = False
            res.bad("T-MOR:recompute:mapped", m.where(loop, site), "block of %s maps %d times" % (base, len(mapped)))
        if good:
            # what is inserted is the mapped domain set
            ins_arg = inserts[0]["a"][1]
            mapped_var = None
            for s2 in body_nodes:
                if kind(s2) == "let" and kind(s2["p"]) == "pid" and s2["e"] is mapped[0]:
                    mapped_var = s2["p"]["n"]
            dom_var = None
            for s2 in body_nodes:
                if kind(s2) == "let" and kind(s2["p"]) == "pid" and kind(s2["e"]) == "match" and s2["e"]["e"] is gets[0]:
                    dom_var = s2["p"]["n"]
            if not (kind(ins_arg) == "path" and ins_arg["p"] == mapped_var and kind(mapped[0]["r"]) == "path" and mapped[0]["r"]["p"] == dom_var):
                good = False
                res.bad("T-MOR:recompute:dataflow", m.where(inserts[0], site), "block of %s: inserted set is not the mapped restriction of the domain" % base)
        if good:
            # mapping arguments: per column behind the model column in index order
            order = f_own.order
            ppos = list(order).index(0)
            cols = [order[j] for j in range(ppos + 1, len(order))]
            args = mapped[0]["a"]
            if len(args) != len(cols):
                good = False
                res.bad("T-MOR:recompute:mapped-arity", m.where(mapped[0], site), "block of %s: mapped() takes %d arguments for %d columns behind the model column" % (base, len(args), len(cols)))
            else:
                for a, col in zip(args, cols):
                    tsn = m.type_snake_of_camel(rel.arg_types[col])
                    if tsn in mem:
                        used = sorted({self_field(x) for x in walk(a) if self_field(x)})
                        want = sorted(f.name for f in m.family(tsn + "_mor_app") if f.order == (0, 1, 2) and f.eqs is None and f.copy is None)
                        gets2 = [x for x in walk(a) if mcall(x, "get") and self_field(x["r"])]
                        ok = (kind(a) == "call" and is_path(a["f"], "Some") and used == want and len(want) == 2
                              and all(expr_str(g["a"][0]) == "*" + binds["morph"] for g in gets2) and len(gets2) == 2
                              and any(mcall(x, "union") for x in walk(a)))
                        if not ok:
                            good = False
                            res.bad("T-MOR:recompute:mapped-member-column", m.where(a, site),
                                    "block of %s: column %d (member type %s) is mapped through %s, expected the union of both ages of %s_mor_app restricted to the morphism" % (base, col, tsn, used, tsn))
                    else:
                        if not (kind(a) == "path" and a["p"] == "None"):
                            good = False
                            res.bad("T-MOR:recompute:mapped-plain-column", m.where(a, site), "block of %s: column %d (not a member type) is mapped through %s" % (base, col, expr_str(a)))
        if good:
            res.ok()
            res.count("blocks")
            # normal form for the new/old twin comparison
            txt = json.dumps(strip_ln({"loop": loop, "start": b["start"], "assign": b["assign"]}), sort_keys=True)
            twin_key = (f_own.rel, f_own.eqs, f_own.order)
            norm_blocks.setdefault(twin_key, {})[f_own.age] = re.sub(r"(?<![A-Za-z0-9_])%s(?=(_own|_all)?(?![A-Za-z0-9_]))" % re.escape(base), "@BASE@", txt)
    for twin_key, ages in norm_blocks.items():
        if set(ages) == {"new", "old"}:
            if ages["new"] == ages["old"]:
                res.ok()
                res.count("age_twins_identical")
            else:
                res.bad("T-MOR:recompute:age-twins-differ", m.where(fn, site), "the new and old recomputation of %s order %s differ structurally" % (twin_key[0], list(twin_key[2])))
    return res


# ---------------------------------------------------------------------------

WRITE_METHODS = {"insert", "remove", "clear", "insert_restriction", "remove_restriction", "get_mut", "iter_restrictions_mut", "union_with", "extend"}

# function-name pattern -> what it may do to (age, kind) ; see DESIGN.md T-AGE
ALLOWED_WRITES = [
    (r"^insert_.+$", {("new", "insert")}),
    (r"^new_.+_internal$", {("new", "insert")}),
    (r"^move_new_to_old$", {("new", "clear"), ("old", "insert")}),
    (r"^canonicalize$", {("new", "remove"), ("old", "remove")}),
    (r"^equate_.+$", {("new", "remove"), ("old", "remove")}),
    (r"^recompute_model_indices$", {("new", "assign"), ("old", "assign"), ("new", "remove_restriction"), ("old", "remove_restriction"),
                                    ("new", "alias"), ("old", "alias")}),
]


def rule_age(m):
    res = RuleResult("T-AGE")
    for fname, fn in m.fns.items():
        allowed = set()
        for pat, al in ALLOWED_WRITES:
            if re.match(pat, fname):
                allowed |= al
        # who writes which age
        for x in walk(fn["b"]):
            f = None
            how = None
            if mcall(x) and x["m"] in WRITE_METHODS and self_field(x["r"]) in m.by_name:
                f = m.by_name[self_field(x["r"])]
                how = x["m"]
            elif kind(x) == "assign" and self_field(x["lhs"]) in m.by_name:
                f = m.by_name[self_field(x["lhs"])]
                how = "assign"
            elif kind(x) == "ref" and x["mut"] and self_field(x) in m.by_name:
                f = m.by_name[self_field(x)]
                how = "alias"
            if f is None:
                continue
            if (f.age, how) in allowed:
                res.ok()
            else:
                res.bad("T-AGE:who-writes:%s:%s" % (f.age, how), m.where(x, fname), "%s performs `%s` on %s-age index %s" % (fname, how, f.age, f.name))
        if fname == "move_new_to_old":
            continue
        # taint: new-age data into old-age tables
        _age_taint(m, res, fname, fn)
    res.sample({"functions": len(m.fns)})
    return res


def _age_taint(m, res, fname, fn):
    """Scoped, in-order taint: which new-age index fields does a local derive from; sinks are insertions
    into old-age indices (directly or through a local that is an alias of / later assigned to one)."""
    # locals that stand for an old-age index: `let x = &mut self.F_old..` and `self.F_old.. = x`
    alias_of = {}
    for x in walk(fn["b"]):
        if kind(x) == "let" and kind(x["p"]) == "pid" and x["e"] is not None:
            e = x["e"]
            if kind(e) == "ref" and self_field(e) in m.by_name:
                alias_of[x["p"]["n"]] = self_field(e)
        if kind(x) == "assign" and self_field(x["lhs"]) in m.by_name and kind(x["rhs"]) == "path":
            alias_of[x["rhs"]["p"]] = self_field(x["lhs"])

    def lookup(env, name):
        for scope in reversed(env):
            if name in scope:
                return scope[name]
        return None

    def expr_taint(e, env):
        t = set()
        for x in walk(e):
            sf = self_field(x)
            if sf in m.by_name and m.by_name[sf].age == "new":
                t.add(sf)
            if kind(x) == "path":
                v = lookup(env, x["p"])
                if v:
                    t |= v
        return t

    def bind(p, t, env):
        for x in walk(p):
            if kind(x) == "pid":
                env[-1][x["n"]] = set(t)

    def sinks(e, env, ctrl):
        for x in walk(e):
            if not (mcall(x) and x["m"] in ("insert", "insert_restriction", "union_with", "extend")):
                continue
            tgt = self_field(x["r"])
            if tgt is None and kind(x["r"]) == "path":
                tgt = alias_of.get(x["r"]["p"])
            f = m.by_name.get(tgt or "")
            if f is None or f.age != "old":
                continue
            t = set()
            for a in x["a"]:
                t |= expr_taint(a, env)
            c = set()
            for ct in ctrl:
                c |= ct
            if t or c:
                via = sorted({_via(m, n) for n in (t | c)})
                res.bad("T-AGE:new-into-old:%s:via=%s" % (fname, "+".join(via)), m.where(x, fname),
                        "%s inserts into old-age index %s data derived from new-age %s%s: tuples become old without ever having been new"
                        % (fname, f.name, sorted(t)[:3], (" under loops controlled by %s" % sorted(c)[:3]) if c else ""))
            else:
                res.ok()

    def visit_block(b, env, ctrl):
        env.append({})
        for s in b["s"]:
            k = kind(s)
            if k == "let":
                if s["e"] is not None:
                    visit_expr(s["e"], env, ctrl)
                    bind(s["p"], expr_taint(s["e"], env), env)
            elif k == "expr":
                visit_expr(s["e"], env, ctrl)
        env.pop()

    def visit_expr(e, env, ctrl):
        k = kind(e)
        if k == "for":
            t = expr_taint(e["e"], env)
            env.append({})
            bind(e["p"], t, env)
            # twice: a local assigned late in the body may be read early in the next round
            visit_block(e["b"], env, ctrl + [t])
            env.pop()
        elif k == "if":
            if kind(e["c"]) == "letx":
                env.append({})
                bind(e["c"]["p"], expr_taint(e["c"]["e"], env), env)
                visit_block(e["t"], env, ctrl)
                env.pop()
            else:
                sinks(e["c"], env, ctrl)
                visit_block(e["t"], env, ctrl)
            if e["e"] is not None:
                visit_expr(e["e"], env, ctrl)
        elif k == "block":
            visit_block(e, env, ctrl)
        elif k in ("loop", "while", "unsafe"):
            visit_block(e["b"], env, ctrl)
        elif k == "match":
            for a in e["arms"]:
                env.append({})
                bind(a["p"], expr_taint(e["e"], env), env)
                visit_expr(a["b"], env, ctrl)
                env.pop()
        else:
            sinks(e, env, ctrl)

    visit_block(fn["b"], [{}], [])


def _via(m, fieldname):
    f = m.by_name[fieldname]
    if f.rel.endswith("_mor_app") or f.rel.endswith("_mor_dom") or f.rel.endswith("_mor_cod") or f.is_typeset:
        return "morphisms"
    return "tuples"


def rule_prune_use(m):
    """T-PRUNE-USE: subtrees handed out mutably by get_mut / iter_restrictions_mut are not shrunk by emitted code
    (the runtime cannot prune the parent's entry when such a child becomes empty)."""
    res = RuleResult("T-PRUNE-USE")
    for fname, fn in m.fns.items():
        children = {}
        for x in walk(fn["b"]):
            if kind(x) == "for" and mcall(x["e"], "iter_restrictions_mut"):
                names = pat_names(x["p"])
                if names and len(names) == 2:
                    children[names[1]] = "iter_restrictions_mut"
            if kind(x) == "let" and kind(x["p"]) == "pid" and x["e"] is not None and any(mcall(y, "get_mut") for y in walk(x["e"])):
                children[x["p"]["n"]] = "get_mut"
            if kind(x) == "letx" and any(kind(y) == "path" and y["p"] in children for y in walk(x["e"])):
                for y in walk(x["p"]):
                    if kind(y) == "pid":
                        children[y["n"]] = children.get(y["n"], "get_mut")
        for x in walk(fn["b"]):
            if mcall(x) and x["m"] in ("remove", "remove_restriction", "clear") and kind(x["r"]) == "path" and x["r"]["p"] in children:
                res.bad("T-PRUNE-USE:%s:shrinks-%s-child" % (fname, children[x["r"]["p"]]), m.where(x, fname),
                        "%s shrinks subtree %s obtained through %s; if it becomes empty the parent keeps an empty entry" % (fname, x["r"]["p"], children[x["r"]["p"]]))
            elif mcall(x) and kind(x["r"]) == "path" and x["r"]["p"] in children:
                res.ok()
    res.ok()
    return res
