"""Per-run context: artefacts, emitted models, memoised rule results."""
import os
import traceback

from .artifacts import Artifacts
from .core import RuleResult, log
from .emodel import AnchorError, Model, component_module


class EmittedProgram:
    def __init__(self, job):
        self.job = job
        self.set = job["set"]
        self.rel = job["rel"]
        self.id = "%s/%s" % (self.set, self.rel)
        self.model = None          # module-mode Model
        self.cmodel = None         # component-mode module Model
        self.comps = {}            # component file -> RuleModule
        self.error = None          # (class, message)


class Context:
    def __init__(self, tier="quick", seed=0):
        self.tier = tier
        self.seed = seed
        self.art = Artifacts()
        self._programs = {}
        self._results = {}

    # -- emitted programs ----------------------------------------------------
    def default_sets(self):
        return ("shipped", "corpus", "enum", "selfhost") if self.tier == "thorough" else ("shipped", "corpus", "enumq%d" % self.seed)

    def programs(self, sets=None):
        sets = sets or self.default_sets()
        out = []
        for s in sets:
            if s not in self._programs:
                self._programs[s] = self._load_set(s)
            out += self._programs[s]
        return out

    def _load_set(self, setname):
        jobs = self.art.emitted((setname,))
        trees = self.art.emitted_trees(setname)
        progs = []
        for job in jobs:
            p = EmittedProgram(job)
            progs.append(p)
            if job["module_rc"] != 0 or job["component_rc"] != 0:
                p.error = ("generator-failed", "eqlog exited with %s/%s: %s" % (job["module_rc"], job["component_rc"],
                                                                                 (job["module_err"] or job["component_err"]).strip()[-400:]))
                continue
            if len(job["module_files"]) != 1 or len(job["cmodule_files"]) != 1:
                p.error = ("generator-failed", "expected one module file per mode, found %d/%d" % (len(job["module_files"]), len(job["cmodule_files"])))
                continue
            try:
                mf = job["module_files"][0]
                p.model = Model(self._short(mf), trees[mf], open(mf).read())
            except AnchorError as e:
                p.error = ("not-parsable" if "does not parse" in str(e) else "not-recognised", str(e))
                continue
            try:
                cf = job["cmodule_files"][0]
                p.cmodel = Model(self._short(cf), trees[cf], open(cf).read())
                for f in job["comp_files"]:
                    p.comps[f] = component_module(self._short(f), trees[f], open(f).read())
            except AnchorError as e:
                p.error = ("not-parsable" if "does not parse" in str(e) else "not-recognised", "component mode: " + str(e))
        return progs

    def enum_info(self):
        """What the enumerated set of this run covers (None if it was not emitted)."""
        import json
        d = os.path.join(self.art.dir, "enum_src" if self.tier == "thorough" else "enumq_src_%d" % self.seed, "info.json")
        if os.path.exists(d):
            return json.load(open(d))
        return None

    def _short(self, path):
        d = os.path.join(self.art.dir, "emit") + "/"
        return path[len(d):] if path.startswith(d) else path

    # -- memoised rules ----------------------------------------------------------
    def memo(self, name, fn):
        if name not in self._results:
            self._results[name] = fn()
        return self._results[name]

    def rules_hash(self):
        """Hash of the framework's rule code: cached rule results are only reused by the same rules."""
        import hashlib
        h = hashlib.sha256()
        d = os.path.dirname(os.path.abspath(__file__))
        for f in sorted(os.listdir(d)):
            if f.endswith(".py"):
                h.update(f.encode())
                h.update(open(os.path.join(d, f), "rb").read())
        return h.hexdigest()[:12]

    def group(self, name, fn):
        """Rule results of one runner group, cached on disk per (tree hash, rules hash, tier)."""
        key = "group_" + name
        if key in self._results:
            return self._results[key]
        import json
        from .core import RuleResult, Violation, write_json
        path = os.path.join(self.art.dir, "results", self.rules_hash(), "%s_%s_s%d.json" % (name, self.tier, self.seed))
        if os.path.exists(path) and not os.environ.get("VERIF_NO_RESULT_CACHE"):
            out = []
            for d in json.load(open(path)):
                rr = RuleResult(d["rule"])
                rr.instances, rr.samples, rr.counts, rr.notes = d["instances"], d["samples"], d["counts"], d["notes"]
                rr.violations = [Violation(v["rule"], v["key"], v["where"], v["msg"], v["detail"]) for v in d["violations"]]
                out.append(rr)
        else:
            try:
                out = fn()
            except AnchorError as e:
                # a whole-crate rule group lost one of its anchors: fail closed, decide nothing silently
                rr = RuleResult("ANCHOR")
                rr.bad("ANCHOR:group:%s" % name, "rule group %s" % name, "rule group %s: %s" % (name, e))
                out = [rr]
            write_json(path, [{"rule": r.rule, "instances": r.instances, "samples": r.samples, "counts": r.counts, "notes": r.notes,
                               "violations": [v.to_json() for v in r.violations]} for r in out])
        self._results[key] = out
        return out

    def per_model(self, rule_names, fn, sets=None, use="model"):
        """Run fn(program) -> RuleResult | list[RuleResult] over all programs and merge by rule.
        Programs that failed to emit/parse produce ANCHOR violations (fail closed)."""
        merged = {r: RuleResult(r) for r in rule_names}
        anchor = RuleResult("ANCHOR")
        nprog = 0
        for p in self.programs(sets):
            if p.error:
                anchor.bad("ANCHOR:%s:%s" % (p.error[0], p.id), p.id, "%s: %s" % (p.id, p.error[1]))
                continue
            try:
                rs = fn(p)
            except AnchorError as e:
                anchor.bad("ANCHOR:not-recognised:%s" % p.id, p.id, "%s: %s" % (p.id, e))
                continue
            nprog += 1
            anchor.ok()
            if isinstance(rs, RuleResult):
                rs = [rs]
            for r in rs:
                merged[r.rule].merge(r)
                merged[r.rule].count("inst_" + p.set, r.instances)
        for r in merged.values():
            r.counts["programs"] = nprog
        return list(merged.values()) + [anchor]
