//! E1: rustc_private driver. Injected with RUSTC_WORKSPACE_WRAPPER under `cargo +nightly check`.
//! For the crates named in VERIF_FACTS_CRATES (comma separated) it writes
//! $VERIF_FACTS_DIR/<crate>.json: every MIR body (blocks, statements, terminators with *resolved*
//! callees), unsafe blocks / impls from HIR, local ADTs with their field types and whether they
//! contain an UnsafeCell, evaluated integer consts. One write per process. All analysis of these
//! facts (dominators, must-pass, taint) happens in the python orchestrator.
#![feature(rustc_private)]
extern crate rustc_abi;
extern crate rustc_driver;
extern crate rustc_hir;
extern crate rustc_interface;
extern crate rustc_middle;
extern crate rustc_span;

use rustc_driver::Compilation;
use rustc_hir as hir;
use rustc_hir::def::DefKind;
use rustc_hir::intravisit::{self, Visitor};
use rustc_interface::interface::Compiler;
use rustc_middle::mir::{self, AggregateKind, Operand, Place, ProjectionElem, Rvalue, StatementKind, TerminatorKind};
use rustc_middle::ty::{self, Instance, Ty, TyCtxt, TypingEnv};
use rustc_span::def_id::{DefId, LOCAL_CRATE};
use rustc_span::Span;
use std::fmt::Write as _;

fn esc(out: &mut String, s: &str) {
    out.push('"');
    for c in s.chars() {
        match c {
            '"' => out.push_str("\\\""),
            '\\' => out.push_str("\\\\"),
            '\n' => out.push_str("\\n"),
            '\r' => out.push_str("\\r"),
            '\t' => out.push_str("\\t"),
            c if (c as u32) < 0x20 => {
                let _ = write!(out, "\\u{:04x}", c as u32);
            }
            c => out.push(c),
        }
    }
    out.push('"');
}

fn q(s: &str) -> String {
    let mut o = String::new();
    esc(&mut o, s);
    o
}

struct UnsafeFinder<'tcx> {
    tcx: TyCtxt<'tcx>,
    out: Vec<String>,
    cur: String,
}
impl<'tcx> Visitor<'tcx> for UnsafeFinder<'tcx> {
    type NestedFilter = rustc_middle::hir::nested_filter::OnlyBodies;
    fn maybe_tcx(&mut self) -> Self::MaybeTyCtxt {
        self.tcx
    }
    fn visit_block(&mut self, b: &'tcx hir::Block<'tcx>) {
        if let hir::BlockCheckMode::UnsafeBlock(_) = b.rules {
            if !b.span.from_expansion() {
                let (file, line) = loc(self.tcx, b.span);
                self.out.push(format!(
                    "{{\"fn\":{},\"file\":{},\"line\":{}}}",
                    q(&self.cur),
                    q(&file),
                    line
                ));
            }
        }
        intravisit::walk_block(self, b);
    }
}

fn loc(tcx: TyCtxt<'_>, span: Span) -> (String, usize) {
    let sm = tcx.sess.source_map();
    let lo = sm.lookup_char_pos(span.lo());
    (format!("{}", lo.file.name.prefer_local_unconditionally()), lo.line)
}

fn ty_contains_unsafe_cell<'tcx>(tcx: TyCtxt<'tcx>, t: Ty<'tcx>, depth: usize, seen: &mut Vec<DefId>) -> bool {
    if depth > 16 {
        return false;
    }
    match t.kind() {
        ty::Adt(def, args) => {
            if def.is_unsafe_cell() {
                return true;
            }
            if seen.contains(&def.did()) {
                return false;
            }
            seen.push(def.did());
            for a in args.iter() {
                if let Some(t2) = a.as_type() {
                    if ty_contains_unsafe_cell(tcx, t2, depth + 1, seen) {
                        return true;
                    }
                }
            }
            // Rc / Arc hold their counters in cells; they are reported separately by name, not as interior
            // mutability of the payload: only descend into local ADTs and well-known transparent wrappers.
            if def.did().is_local() {
                for f in def.all_fields() {
                    let ft = tcx.type_of(f.did).instantiate_identity().skip_norm_wip();
                    if ty_contains_unsafe_cell(tcx, ft, depth + 1, seen) {
                        return true;
                    }
                }
            } else {
                let name = tcx.def_path_str(def.did());
                if name.contains("cell::") || name.contains("sync::atomic") || name.contains("Mutex") || name.contains("RwLock") || name.contains("OnceLock") || name.contains("LazyLock") || name.contains("LazyCell") || name.contains("OnceCell") {
                    return true;
                }
            }
            false
        }
        ty::Ref(_, t2, _) | ty::Slice(t2) | ty::Array(t2, _) => ty_contains_unsafe_cell(tcx, *t2, depth + 1, seen),
        ty::RawPtr(t2, _) => ty_contains_unsafe_cell(tcx, *t2, depth + 1, seen),
        ty::Tuple(ts) => ts.iter().any(|t2| ty_contains_unsafe_cell(tcx, t2, depth + 1, seen)),
        _ => false,
    }
}

fn place_json<'tcx>(p: &Place<'tcx>) -> String {
    let mut s = format!("[{},[", p.local.as_usize());
    let mut first = true;
    for e in p.projection.iter() {
        if !first {
            s.push(',');
        }
        first = false;
        let t = match e {
            ProjectionElem::Deref => "*".to_string(),
            ProjectionElem::Field(f, _) => format!(".{}", f.as_usize()),
            ProjectionElem::Index(l) => format!("[_{}]", l.as_usize()),
            ProjectionElem::ConstantIndex { offset, .. } => format!("[{}]", offset),
            ProjectionElem::Subslice { .. } => "[..]".to_string(),
            ProjectionElem::Downcast(name, idx) => format!("@{}", name.map(|n| n.to_string()).unwrap_or_else(|| idx.as_usize().to_string())),
            _ => "?".to_string(),
        };
        esc(&mut s, &t);
    }
    s.push_str("]]");
    s
}

fn operand_json<'tcx>(tcx: TyCtxt<'tcx>, o: &Operand<'tcx>) -> String {
    match o {
        Operand::Copy(p) => format!("{{\"c\":{}}}", place_json(p)),
        Operand::Move(p) => format!("{{\"m\":{}}}", place_json(p)),
        Operand::Constant(c) => {
            let t = c.const_.ty();
            let mut s = format!("{{\"k\":\"const\",\"t\":{},\"v\":{}", q(&format!("{:?}", t)), q(&format!("{:?}", c.const_)));
            if let ty::FnDef(d, _) = t.kind() {
                let _ = write!(s, ",\"fn\":{}", q(&tcx.def_path_str(*d)));
            }
            if let ty::Closure(d, _) = t.kind() {
                let _ = write!(s, ",\"closure\":{}", q(&tcx.def_path_str(*d)));
            }
            s.push('}');
            s
        }
        #[allow(unreachable_patterns)]
        _ => "{\"k\":\"other\"}".to_string(),
    }
}

fn rvalue_json<'tcx>(tcx: TyCtxt<'tcx>, body: &mir::Body<'tcx>, rv: &Rvalue<'tcx>) -> String {
    match rv {
        Rvalue::Use(op, ..) => format!("{{\"k\":\"use\",\"op\":{}}}", operand_json(tcx, op)),
        Rvalue::Ref(_, bk, p) => format!(
            "{{\"k\":\"ref\",\"mut\":{},\"p\":{}}}",
            matches!(bk, mir::BorrowKind::Mut { .. }),
            place_json(p)
        ),
        Rvalue::RawPtr(kind, p) => format!(
            "{{\"k\":\"rawptr\",\"mut\":{},\"p\":{}}}",
            format!("{:?}", kind).contains("Mut"),
            place_json(p)
        ),
        Rvalue::Cast(ck, op, t) => format!(
            "{{\"k\":\"cast\",\"ck\":{},\"op\":{},\"from\":{},\"ty\":{}}}",
            q(&format!("{:?}", ck)),
            operand_json(tcx, op),
            q(&format!("{:?}", op.ty(&body.local_decls, tcx))),
            q(&format!("{:?}", t))
        ),
        Rvalue::BinaryOp(op, ab) => format!(
            "{{\"k\":\"bin\",\"op\":{},\"a\":{},\"b\":{}}}",
            q(&format!("{:?}", op)),
            operand_json(tcx, &ab.0),
            operand_json(tcx, &ab.1)
        ),
        Rvalue::UnaryOp(op, a) => format!("{{\"k\":\"un\",\"op\":{},\"a\":{}}}", q(&format!("{:?}", op)), operand_json(tcx, a)),
        Rvalue::Discriminant(p) => format!("{{\"k\":\"discr\",\"p\":{}}}", place_json(p)),
        Rvalue::Aggregate(kind, ops) => {
            let ak = match &**kind {
                AggregateKind::Adt(did, variant, _, _, _) => {
                    let adt = tcx.adt_def(*did);
                    format!("adt:{}:{}", tcx.def_path_str(*did), adt.variant(*variant).name)
                }
                AggregateKind::Tuple => "tuple".to_string(),
                AggregateKind::Array(_) => "array".to_string(),
                AggregateKind::Closure(did, _) => format!("closure:{}", tcx.def_path_str(*did)),
                other => format!("other:{:?}", other),
            };
            let mut s = format!("{{\"k\":\"agg\",\"ak\":{},\"ops\":[", q(&ak));
            for (i, o) in ops.iter().enumerate() {
                if i > 0 {
                    s.push(',');
                }
                s.push_str(&operand_json(tcx, o));
            }
            s.push_str("]}");
            s
        }
        Rvalue::Repeat(op, _) => format!("{{\"k\":\"repeat\",\"op\":{}}}", operand_json(tcx, op)),
        Rvalue::CopyForDeref(p) => format!("{{\"k\":\"use\",\"op\":{{\"c\":{}}}}}", place_json(p)),
        other => format!("{{\"k\":\"other\",\"t\":{}}}", q(&format!("{:?}", other))),
    }
}

struct Cb;
impl rustc_driver::Callbacks for Cb {
    fn after_analysis<'tcx>(&mut self, _c: &Compiler, tcx: TyCtxt<'tcx>) -> Compilation {
        let krate = tcx.crate_name(LOCAL_CRATE).to_string();
        let wanted = std::env::var("VERIF_FACTS_CRATES").unwrap_or_default();
        if !wanted.split(',').any(|w| w == krate) {
            return Compilation::Continue;
        }
        let dir = match std::env::var("VERIF_FACTS_DIR") {
            Ok(d) => d,
            Err(_) => return Compilation::Continue,
        };
        let mut out = String::with_capacity(1 << 22);
        let _ = write!(out, "{{\"crate\":{},", q(&krate));

        // ---- HIR: unsafe blocks and impls
        let mut ub: Vec<String> = Vec::new();
        for def in tcx.hir_body_owners() {
            let mut v = UnsafeFinder { tcx, out: Vec::new(), cur: tcx.def_path_str(def.to_def_id()) };
            let body = tcx.hir_body_owned_by(def);
            v.visit_body(body);
            ub.extend(v.out);
        }
        let _ = write!(out, "\"unsafe_blocks\":[{}],", ub.join(","));
        let mut ui: Vec<String> = Vec::new();
        let mut adts: Vec<String> = Vec::new();
        let mut statics: Vec<String> = Vec::new();
        for id in tcx.hir_free_items() {
            let item = tcx.hir_item(id);
            let did = item.owner_id.to_def_id();
            match &item.kind {
                hir::ItemKind::Impl(imp) => {
                    if let Some(tr) = imp.of_trait {
                        if matches!(tr.safety, hir::Safety::Unsafe) && !item.span.from_expansion() {
                            let (file, line) = loc(tcx, item.span);
                            let self_ty = tcx.type_of(did).instantiate_identity().skip_norm_wip();
                            ui.push(format!(
                                "{{\"impl\":{},\"self_ty\":{},\"trait\":{},\"file\":{},\"line\":{}}}",
                                q(&tcx.def_path_str(did)),
                                q(&format!("{:?}", self_ty)),
                                q(&format!("{:?}", tr.trait_ref.path.res)),
                                q(&file),
                                line
                            ));
                        }
                    }
                }
                hir::ItemKind::Struct(..) | hir::ItemKind::Enum(..) | hir::ItemKind::Union(..) => {
                    let t = tcx.type_of(did).instantiate_identity().skip_norm_wip();
                    let mut seen = Vec::new();
                    let uc = ty_contains_unsafe_cell(tcx, t, 0, &mut seen);
                    let mut fs = String::new();
                    if let ty::Adt(def, _) = t.kind() {
                        let mut first = true;
                        for v in def.variants() {
                            for f in &v.fields {
                                if !first {
                                    fs.push(',');
                                }
                                first = false;
                                let ft = tcx.type_of(f.did).instantiate_identity().skip_norm_wip();
                                let mut seen2 = Vec::new();
                                let _ = write!(
                                    fs,
                                    "{{\"variant\":{},\"name\":{},\"ty\":{},\"unsafe_cell\":{}}}",
                                    q(&v.name.to_string()),
                                    q(&f.name.to_string()),
                                    q(&format!("{:?}", ft)),
                                    ty_contains_unsafe_cell(tcx, ft, 0, &mut seen2)
                                );
                            }
                        }
                    }
                    adts.push(format!("{{\"path\":{},\"unsafe_cell\":{},\"fields\":[{}]}}", q(&tcx.def_path_str(did)), uc, fs));
                }
                hir::ItemKind::Static(..) => {
                    let t = tcx.type_of(did).instantiate_identity().skip_norm_wip();
                    statics.push(format!("{{\"path\":{},\"ty\":{}}}", q(&tcx.def_path_str(did)), q(&format!("{:?}", t))));
                }
                _ => {}
            }
        }
        let _ = write!(out, "\"unsafe_impls\":[{}],\"adts\":[{}],\"statics\":[{}],", ui.join(","), adts.join(","), statics.join(","));

        // ---- evaluated integer consts
        let mut consts: Vec<String> = Vec::new();
        for def in tcx.hir_body_owners() {
            let did = def.to_def_id();
            if matches!(tcx.def_kind(did), DefKind::Const { .. } | DefKind::AssocConst { .. }) {
                if tcx.generics_of(did).is_empty() || true {
                    if let Ok(v) = tcx.const_eval_poly(did) {
                        if let Some(si) = v.try_to_scalar_int() {
                            consts.push(format!("{{\"path\":{},\"value\":{}}}", q(&tcx.def_path_str(did)), q(&format!("{}", si.to_bits_unchecked()))));
                        }
                    }
                }
            }
        }
        let _ = write!(out, "\"consts\":[{}],", consts.join(","));

        // ---- MIR bodies
        out.push_str("\"bodies\":[");
        let mut firstb = true;
        let mut nbodies = 0usize;
        for def in tcx.mir_keys(()) {
            let did = def.to_def_id();
            let kind = tcx.def_kind(did);
            if !matches!(kind, DefKind::Fn | DefKind::AssocFn | DefKind::Closure) {
                continue;
            }
            let body = tcx.optimized_mir(did);
            nbodies += 1;
            if !firstb {
                out.push(',');
            }
            firstb = false;
            let name = tcx.def_path_str(did);
            let (file, line) = loc(tcx, body.span);
            let typing_env = TypingEnv::post_analysis(tcx, did);
            let vis = if matches!(kind, DefKind::Fn | DefKind::AssocFn) && tcx.visibility(did).is_public() { "pub" } else { "" };
            let parent = if matches!(kind, DefKind::Closure) { tcx.def_path_str(tcx.typeck_root_def_id(did)) } else { String::new() };
            let _ = write!(
                out,
                "{{\"path\":{},\"kind\":{},\"file\":{},\"line\":{},\"vis\":{},\"parent\":{},\"exp\":{},\"args\":{},",
                q(&name),
                q(&format!("{:?}", kind)),
                q(&file),
                line,
                q(vis),
                q(&parent),
                body.span.from_expansion(),
                body.arg_count
            );
            // closure upvars
            if matches!(kind, DefKind::Closure) {
                let t = tcx.type_of(did).instantiate_identity().skip_norm_wip();
                if let ty::Closure(_, cargs) = t.kind() {
                    let ups: Vec<String> = cargs.as_closure().upvar_tys().iter().map(|u| q(&format!("{:?}", u))).collect();
                    let _ = write!(out, "\"upvars\":[{}],", ups.join(","));
                }
            }
            // locals
            let mut names: Vec<Option<String>> = vec![None; body.local_decls.len()];
            for vdi in &body.var_debug_info {
                if let mir::VarDebugInfoContents::Place(p) = &vdi.value {
                    if p.projection.is_empty() {
                        names[p.local.as_usize()] = Some(vdi.name.to_string());
                    }
                }
            }
            out.push_str("\"locals\":[");
            for (i, d) in body.local_decls.iter().enumerate() {
                if i > 0 {
                    out.push(',');
                }
                let _ = write!(out, "[{},{}]", q(&format!("{:?}", d.ty)), names[i].as_ref().map(|n| q(n)).unwrap_or_else(|| "null".to_string()));
            }
            out.push_str("],\"blocks\":[");
            for (bbi, data) in body.basic_blocks.iter_enumerated() {
                if bbi.as_usize() > 0 {
                    out.push(',');
                }
                out.push_str("{\"s\":[");
                let mut firsts = true;
                for st in &data.statements {
                    let js = match &st.kind {
                        StatementKind::Assign(b) => {
                            let (_f, l) = loc(tcx, st.source_info.span);
                            Some(format!(
                                "{{\"lhs\":{},\"rv\":{},\"line\":{},\"exp\":{}}}",
                                place_json(&b.0),
                                rvalue_json(tcx, body, &b.1),
                                l,
                                st.source_info.span.from_expansion()
                            ))
                        }
                        StatementKind::SetDiscriminant { place, variant_index } => {
                            Some(format!("{{\"setdiscr\":{},\"variant\":{}}}", place_json(place), variant_index.as_usize()))
                        }
                        _ => None,
                    };
                    if let Some(js) = js {
                        if !firsts {
                            out.push(',');
                        }
                        firsts = false;
                        out.push_str(&js);
                    }
                }
                out.push_str("],\"t\":");
                let t = data.terminator();
                let (_tf, tl) = loc(tcx, t.source_info.span);
                let texp = t.source_info.span.from_expansion();
                let bb = |b: &mir::BasicBlock| b.as_usize();
                match &t.kind {
                    TerminatorKind::Call { func, args, destination, target, unwind, .. } => {
                        let mut raw = String::new();
                        let mut resolved = String::new();
                        let mut gargs_s = String::new();
                        let mut indirect = String::from("null");
                        match func {
                            Operand::Constant(c) => {
                                if let ty::FnDef(callee, gargs) = c.const_.ty().kind() {
                                    raw = tcx.def_path_str(*callee);
                                    gargs_s = format!("{:?}", gargs);
                                    resolved = match Instance::try_resolve(tcx, typing_env, *callee, gargs) {
                                        Ok(Some(i)) => tcx.def_path_str(i.def_id()),
                                        _ => String::new(),
                                    };
                                }
                            }
                            Operand::Copy(p) | Operand::Move(p) => {
                                indirect = place_json(p);
                            }
                            #[allow(unreachable_patterns)]
                            _ => {}
                        }
                        let a: Vec<String> = args.iter().map(|a| operand_json(tcx, &a.node)).collect();
                        let uw = match unwind {
                            mir::UnwindAction::Cleanup(b) => format!("{}", bb(b)),
                            _ => "null".to_string(),
                        };
                        let _ = write!(
                            out,
                            "{{\"k\":\"call\",\"f\":{},\"raw\":{},\"g\":{},\"ind\":{},\"args\":[{}],\"dest\":{},\"target\":{},\"unwind\":{},\"line\":{},\"exp\":{}}}",
                            q(&resolved),
                            q(&raw),
                            q(&gargs_s),
                            indirect,
                            a.join(","),
                            place_json(destination),
                            target.map(|b| format!("{}", b.as_usize())).unwrap_or_else(|| "null".to_string()),
                            uw,
                            tl,
                            texp
                        );
                    }
                    TerminatorKind::SwitchInt { discr, targets } => {
                        let mut ts = String::new();
                        for (i, (v, b)) in targets.iter().enumerate() {
                            if i > 0 {
                                ts.push(',');
                            }
                            let _ = write!(ts, "[{},{}]", q(&format!("{}", v)), b.as_usize());
                        }
                        let _ = write!(
                            out,
                            "{{\"k\":\"switch\",\"d\":{},\"targets\":[{}],\"otherwise\":{},\"line\":{}}}",
                            operand_json(tcx, discr),
                            ts,
                            targets.otherwise().as_usize(),
                            tl
                        );
                    }
                    TerminatorKind::Goto { target } => {
                        let _ = write!(out, "{{\"k\":\"goto\",\"target\":{}}}", bb(target));
                    }
                    TerminatorKind::Return => out.push_str("{\"k\":\"return\"}"),
                    TerminatorKind::Unreachable => out.push_str("{\"k\":\"unreachable\"}"),
                    TerminatorKind::UnwindResume => out.push_str("{\"k\":\"resume\"}"),
                    TerminatorKind::Assert { cond, expected, msg, target, unwind } => {
                        let uw = match unwind {
                            mir::UnwindAction::Cleanup(b) => format!("{}", bb(b)),
                            _ => "null".to_string(),
                        };
                        let m = format!("{:?}", msg);
                        let mk = m.split(|c: char| c == '(' || c == ' ' || c == '{').next().unwrap_or("").to_string();
                        let _ = write!(
                            out,
                            "{{\"k\":\"assert\",\"cond\":{},\"expected\":{},\"msg\":{},\"target\":{},\"unwind\":{},\"line\":{},\"exp\":{}}}",
                            operand_json(tcx, cond),
                            expected,
                            q(&mk),
                            bb(target),
                            uw,
                            tl,
                            texp
                        );
                    }
                    TerminatorKind::Drop { place, target, unwind, .. } => {
                        let uw = match unwind {
                            mir::UnwindAction::Cleanup(b) => format!("{}", bb(b)),
                            _ => "null".to_string(),
                        };
                        let _ = write!(out, "{{\"k\":\"drop\",\"p\":{},\"target\":{},\"unwind\":{}}}", place_json(place), bb(target), uw);
                    }
                    TerminatorKind::FalseEdge { real_target, .. } => {
                        let _ = write!(out, "{{\"k\":\"goto\",\"target\":{}}}", bb(real_target));
                    }
                    TerminatorKind::FalseUnwind { real_target, .. } => {
                        let _ = write!(out, "{{\"k\":\"goto\",\"target\":{}}}", bb(real_target));
                    }
                    other => {
                        let succ: Vec<String> = other.successors().map(|b| format!("{}", b.as_usize())).collect();
                        let _ = write!(out, "{{\"k\":\"other\",\"t\":{},\"succ\":[{}]}}", q(&format!("{:?}", other)), succ.join(","));
                    }
                }
                let _ = write!(out, ",\"cleanup\":{}}}", data.is_cleanup);
            }
            out.push_str("]}");
        }
        let _ = write!(out, "],\"n_bodies\":{}}}", nbodies);
        std::fs::create_dir_all(&dir).ok();
        let path = format!("{}/{}.json", dir, krate);
        std::fs::write(&path, out).expect("write facts");
        Compilation::Continue
    }
}

fn main() {
    let mut args: Vec<String> = std::env::args().collect();
    // RUSTC_WORKSPACE_WRAPPER: argv[1] is the path of the real rustc
    if args.len() > 1 && (args[1].ends_with("rustc") || args[1].contains("/rustc")) {
        args.remove(1);
    }
    rustc_driver::run_compiler(&args, &mut Cb);
}
