#!/usr/bin/python3
"""Runs the registered quick checks against seeded changes, in a scratch worktree (never in /repo).

usage: tools/run_seeded.py [--all-props] <dir with patch.diff and meta.json> ...

For each directory: creates (or reuses) the scratch worktree /tmp/verif-seeded/repo at /repo's HEAD, applies patch.diff,
runs `./check <P>` with VERIF_REPO pointing at the worktree for the property named in meta.json (or every claimed property
with --all-props), reports which checks raise a VIOLATION and with which keys, and reverts the patch. The worktree and
its build output are removed at the end unless --keep is given.
"""
import json
import os
import re
import subprocess
import sys

HERE = os.path.dirname(os.path.dirname(os.path.abspath(__file__)))
WT = "/tmp/verif-seeded/repo"


def sh(cmd, **kw):
    return subprocess.run(cmd, stdout=subprocess.PIPE, stderr=subprocess.STDOUT, text=True, **kw)


def main():
    args = sys.argv[1:]
    all_props = "--all-props" in args
    keep = "--keep" in args
    dirs = [a for a in args if not a.startswith("--")]
    man = json.load(open(os.path.join(HERE, "MANIFEST.json")))
    claimed = [c["property_id"] for c in man["checks"]]
    if not os.path.isdir(WT):
        os.makedirs(os.path.dirname(WT), exist_ok=True)
        r = sh(["git", "-C", "/repo", "worktree", "add", "--detach", WT, "HEAD"])
        if r.returncode != 0:
            print(r.stdout)
            return 2
    else:
        sh(["git", "-C", WT, "checkout", "-q", "--detach", sh(["git", "-C", "/repo", "rev-parse", "HEAD"]).stdout.strip()])
        sh(["git", "-C", WT, "checkout", "--", "."])
    env = dict(os.environ, VERIF_REPO=WT)
    summary = {}
    for d in dirs:
        d = os.path.abspath(d)
        name = os.path.basename(d.rstrip("/"))
        meta = json.load(open(os.path.join(d, "meta.json"))) if os.path.exists(os.path.join(d, "meta.json")) else {}
        patch = os.path.join(d, "patch.diff")
        r = sh(["git", "-C", WT, "apply", "--whitespace=nowarn", patch])
        if r.returncode != 0:
            print("%s: patch does not apply: %s" % (name, r.stdout))
            summary[name] = {"error": "patch does not apply"}
            continue
        props = claimed if all_props else [p for p in meta.get("properties", [meta.get("property")]) if p]
        fired = {}
        for p in props:
            r = sh([os.path.join(HERE, "check"), p, "--tier", "quick"], env=env, cwd=HERE)
            keys = re.findall(r"^\s+%s \[([^\]]+)\]" % p, r.stdout, re.M)
            viol = re.findall(r"^VIOLATION property=%s" % p, r.stdout, re.M)
            if r.returncode == 1 and viol:
                fired[p] = sorted(set(keys))
            elif r.returncode not in (0, 1):
                fired[p] = ["<exit %d: %s>" % (r.returncode, r.stdout.strip().split("\n")[-1][:200])]
        sh(["git", "-C", WT, "checkout", "--", "."])
        sh(["git", "-C", WT, "clean", "-fdq", "--", "eqlog", "eqlog-runtime", "eqlog-test-eval", "eqlog-test-compile"])
        summary[name] = {"expected": meta.get("property"), "fired": fired}
        print("%s: expected %s; fired: %s" % (name, meta.get("property"), json.dumps(fired)))
    if not keep:
        sh(["git", "-C", "/repo", "worktree", "remove", "--force", WT])
    print(json.dumps(summary, indent=1))
    return 0


if __name__ == "__main__":
    sys.exit(main())
