#!/usr/bin/python3
"""Regenerates /verif/MANIFEST.json from vlib/props.py and the texts below (run after changing the claimed set)."""
import json
import os
import sys

HERE = os.path.dirname(os.path.dirname(os.path.abspath(__file__)))
sys.path.insert(0, HERE)
from vlib import props  # noqa: E402

from vlib.texts import TEXT  # noqa: E402

NOT_APPLICABLE = {
    "C10": "The verdict for a program is the least fixed point of ~300 inference rules of eqlog.eql evaluated by registry-built code followed by value-level comparisons; no clause of the `iff` is visible in code shape and not already enforced by the 45 error tests. Static analysis is declined rather than dressed up (DESIGN.md section 7).",
}



def technique_of(rules):
    """Names the deciding method per family of rules (T-: emitted code, M-: MIR facts, S-: hand-written sources)."""
    parts = []
    t = [r for r in rules if r.startswith("T-") and r != "T-TYPECHECK"]
    m = [r for r in rules if r.startswith("M-")]
    sy = [r for r in rules if r.startswith("S-")]
    if t:
        extra = ""
        if "T-LOOP" in t or "T-PENDING" in t:
            extra = "; T-LOOP/T-PENDING: path-sensitive typestate analysis of close_until, also on the generator's template"
        if "T-FLAT" in t:
            extra += "; T-FLAT: comparison with a reference flattening of enumerated source rules"
        parts.append("custom lint over the syntax tree (syn) of the code the working tree's generator emits for shipped theories, /verif/corpus and enumerated rules (%s%s)" % (", ".join(t), extra))
    if "T-TYPECHECK" in rules:
        parts.append("rustc's type checker on every emitted module and component (T-TYPECHECK, --emit=metadata, nothing linked or run)")
    if m:
        parts.append("dataflow over MIR facts dumped by a rustc_private driver: dominators, must-pass reachability, place-based taint, call-graph and who-may-call inventories (%s)" % ", ".join(m))
    if sy:
        parts.append("syntax-tree lint (syn) of the hand-written runtime: sibling agreement, delegation tables, pruning and navigation idioms (%s)" % ", ".join(sy))
    return "static analysis: " + "; ".join(parts)

def main():
    checks = []
    for pid in sorted(props.PROPERTIES):
        spec = props.PROPERTIES[pid]
        text, note = TEXT.get(pid, ("rules " + ", ".join(spec["rules"]), ""))
        checks.append({
            "property_id": pid,
            "quick_cmd": "./check %s --tier quick" % pid,
            "thorough_cmd": "./check %s --tier thorough" % pid,
            "evidence_file": "/verif/evidence/%s.json" % pid,
            "replay_cmd_template": "./check %s --replay {path}" % pid,
            "engine": "check",
            "level_claimed": {"category": spec["level"], "text": text, "design_ref": "DESIGN.md section 5, %s" % pid},
            "level_note": note,
            "technique": spec.get("technique", technique_of(spec["rules"])),
        })
    na = []
    all_ids = ["C%02d" % i for i in range(1, 21)]
    for pid in all_ids:
        if pid in props.PROPERTIES:
            continue
        na.append({"property_id": pid, "reason": NOT_APPLICABLE.get(pid, "check not implemented yet in this commit (planned, see DESIGN.md section 5)")})
    man = {
        "version": 1,
        "setup_cmd": "./setup.sh",
        "hooks": {
            "guard": "eqlog_verif",
            "enable": "no hook is needed: the checks read sources, MIR and emitted code; nothing in /repo is instrumented",
            "baseline_off_cmd": "cd /repo && cargo test --workspace --no-fail-fast --offline",
            "source_commits": [],
            "add_only": True,
        },
        "engines": [
            {"name": "check", "path": "/verif/check", "serves_properties": sorted(props.PROPERTIES),
             "kind_free_text": "python orchestrator: builds the eqlog CLI from /repo, lets it emit code (rustc replaced by /bin/true), parses with syn, evaluates rules, writes evidence"},
            {"name": "analyzer", "path": "/verif/analyzer", "serves_properties": sorted(props.PROPERTIES),
             "kind_free_text": "stable Rust + syn: Rust source -> JSON syntax tree"},
            {"name": "driver", "path": "/verif/driver", "serves_properties": [],
             "kind_free_text": "rustc_private driver (nightly): MIR/HIR facts with resolved callees"},
        ],
        "checks": checks,
        "not_applicable": na,
        "notes": "Static analysis only: no model, container, rule function or test is executed by any check. Genuine defects found are repaired by `fix:` commits in /repo or listed in /verif/known_findings.jsonl.",
    }
    with open(os.path.join(HERE, "MANIFEST.json"), "w") as f:
        json.dump(man, f, indent=1)
        f.write("\n")
    print("MANIFEST.json: %d checks, %d not applicable" % (len(checks), len(na)))


if __name__ == "__main__":
    main()
