#!/usr/bin/python3
"""Regenerates /verif/MANIFEST.json from vlib/props.py and the texts below (run after changing the claimed set)."""
import json
import os
import sys

HERE = os.path.dirname(os.path.dirname(os.path.abspath(__file__)))
sys.path.insert(0, HERE)
from vlib import props  # noqa: E402

TEXT = {
    "C01": ("Per emitted program: every rule function enumerates exactly the join of the flat rule printed above it and pushes exactly its conclusions (T-PLAN); the sub-rules cover every match with something new (T-SEMI); close_until runs every module on canonical, recomputed tables, applies all conclusions and stops only when nothing is new (T-LOOP, T-DELTA, T-DIRTY); all copies of a relation are kept in step by insert/move/canonicalize with exact diagonal guards (T-INS, T-MOVE, T-CANON, T-DIAG); each function has its functionality rule (T-FUNC); no tuple becomes old without having been new (T-AGE). For enumerated flat-shaped rules the printed flat rule is compared with a reference flattening of the source rule (T-FLAT). Decided by a lint over the syntax tree of the generator's output for the shipped theories, /verif/corpus and a seeded sample of 120 enumerated rules (quick); thorough adds the whole enumerated family (2076 rules) and eqlog.eql; T-LOOP also on the generator's template, i.e. for all programs.",
            "Necessary structural conditions of closedness, not the behaviour. Not decided: that flatten() turns a source rule with nested terms, branch or match into the right flat rules; termination. Oracle: the flat-rule comment and the index family of the emitted struct (trusted naming scheme, fail closed)."),
    "C02": ("Per emitted program: every premise column is constrained to the right variable (an unconstrained column is a spurious match, T-PLAN), conclusions mention bound variables only, diagonal copies contain exactly the rows satisfying the equalities (T-DIAG, truth table over all set partitions), definitions are applied only when `!is_dirty()` was observed and allocation is reachable in close only through apply_func_defs (T-LOOP).",
            "Structural soundness conditions only; freeness / isomorphism with a reference chase is value-level and not decided."),
    "C03": ("Per emitted program: the age discipline semi-naive evaluation relies on: exact cover (T-SEMI); move_new_to_old moves every new row into every old copy and clears every new copy (T-MOVE); canonicalize re-inserts rewritten rows as new (T-CANON); close_until starts by canonicalizing (T-LOOP); inserting a present tuple is a no-op for both ages (T-INS); nothing reaches an old copy without having been new (T-AGE).",
            "Equality of the two final models is not decided; the D5 defect (inherited tuples enter old copies directly) is a known finding."),
    "C04": ("Sibling agreement between the code paths that maintain one relation's copies: struct vs new() (T-FAM), insert (T-INS), move_new_to_old (T-MOVE), canonicalize (T-CANON), is_dirty (T-DIRTY), with diagonal guards decided exactly (T-DIAG); public queries root their arguments and cover both ages with correctly permuted rows (T-API).",
            "Decided per emitted program on code shape; transient duplicates between own/new and inherited/old copies are not decided."),
    "C05": ("Shape of the generated API: queries canonicalize every argument before the first index access and look at one full index per age; root/are_equal/equate/new_internal/define follow the contract (equate unions the two roots, removes exactly the merged element from both type sets and records it as uprooted; define evaluates first and allocates only in the None arm); insert covers the new family and is a no-op for present rows (T-API, T-INS).",
            "Per emitted program; the union-find implementation itself (eqlog-runtime/src/unification.rs) is covered by the who-writes rule M-UF."),
    "C06": ("Allocation clause: new_T_internal is private and called only by new_T and define_f into T; from close_until it is reachable only through apply_func_defs; a theory whose source has no `!` in a then-statement has no routine pushing a definition (T-ALLOC). Dirtiness sources are each cleared once per iteration (T-DIRTY, T-MOVE, T-CANON).",
            "Termination is a liveness claim over runtime data and is NOT decided; only the structural conditions named here are."),
    "C07": ("Path-sensitive typestate analysis of the emitted close_until (all paths, loop to fixed point): `true` only right after condition(self) held on canonical, recomputed tables; `false` only right after `!is_dirty()` with all ModelDelta kinds drained; at every return, collected conclusions are either drained or stored back into the model (T-LOOP, T-PENDING). Decided on the `close_until` template inside the generator (string literal of display_close_until_fn, placeholders substituted, parsed as Rust), hence for all programs, and again on the emitted function of every analysed program.",
            "The template depends on the program only through the list of module calls; that every declared module is called is checked on each emitted program."),
    "C15": ("Who-may-call: new_<enum>_internal is reachable only through define_<ctor>; new_<enum>(Case) dispatches each variant to its constructor's define; <enum>_cases roots its argument and scans every constructor; no define_ exists for a non-constructor function into an enum type (T-ALLOC, T-ENUM, T-DELTA).",
            "The compile-time half (rules should_be_obtained_by_ctor / is_given_by_ctor in eqlog.eql) is not decided."),
    "C16": ("Exact per emitted program: for every family of sub-rules and each of the 2^n new/old labellings of its distinct atoms, exactly one member admits the labelling if some atom is new and none if all are old; ages are those of the index fields actually read (T-PLAN ties the comment to the code). The functionality rule is checked up to the swap of its two atoms.",
            "Finite enumeration per program; bounded by the analysed programs: shipped theories, corpus, a seeded sample of the enumerated family (quick) or the whole family of 2076 flat-shaped rules with up to 3 premise atoms and 4 variables plus eqlog.eql (thorough)."),
    "C17": ("Protocol of recompute_model_indices: one topological sort per model type with arguments in the callee's positions; per own/all pair one block that starts from a clone of `own`, walks the sorted morphisms in order, maps the domain's accumulated `all` restriction through both ages of the morphism-application tables and inserts it under the codomain; new and old blocks structurally identical (T-MOR); rules never run on stale `all` copies (T-LOOP); no new-age data flows into an old-age copy (T-AGE, scoped taint).",
            "D5 is a known finding (old `all` copies are derived from new morphism data). Value-level transitivity is not decided separately (it follows from processing in topological order given C18)."),
}

TEXT.update({
    "C08": ("The nine prefix-tree arities are one implementation (S-SIB: token-skeleton equality of every method for arities 2..9); the invariant `no key maps to an empty subtree`, on which is_empty() rests, is kept by every shrinking/storing method (S-PRUNE) and respected by emitted code (T-PRUNE-USE); clones are independent because no container type has interior mutability (M-FREEZE), the unsafe inventory is exactly the two audited raw-pointer dereferences of IterMut (M-UNSAFE), mapping nodes never enter live trees (M-MAPFREE); union/difference callbacks receive (self, other) values in order (M-CBORDER, MIR taint).",
            "Sortedness and prefix lookups for arities 0..2 are only covered through the map rules of C14. Known finding: get_mut hands out &mut subtrees that emitted code shrinks."),
    "C09": ("rustc's type checker accepts every emitted module and component (`--emit=metadata`, nothing linked or run) for /verif/corpus in both build modes and the shipped theories (module mode in quick, both in thorough); imports equal exports between module and components, a link-time condition the type checker does not see (T-X); env structs only name fields that exist (T-ENV); ModelDelta has exactly the vectors the rules push to (T-DELTA).",
            "Bounded by the analysed programs; absence of panics in the lowering passes for programs outside them is not decided. Known finding D10 (member enum `!`)."),
    "C11": ("On the path that renders a diagnostic (Display of CompileErrorWithContext / SourceDisplay, From<ParseError>, whipe_comments, line table) every panic-capable operation in the reachable call graph (explicit panics, unwrap/expect, str/slice indexing, overflow/bounds asserts) is in an audited table with one reason per entry, one of them under a checked structural precondition (M-PANIC); byte offsets are never computed from str::lines() plus a constant terminator width, and the parsed text is never a re-joined copy of the text diagnostics are rendered against (M-LINES); every syntax-node kind whose location the semantic checks unwrap receives a location in every grammar action that creates such a node (M-LOCS, over the MIR of the lalrpop-generated actions).",
            "Diagnostic path only: panics and hangs inside parsing, closing the compiler's own model and the semantic passes rest on invariants of that model and are NOT decided."),
    "C12": ("MIR control-flow analysis of process_file and compile_component_rlib (dominators, must-pass over all paths, so over all crash points): every output mutation (fs::write, rustc, component build) is dominated by the removal of the digest that vouches for it; from every mutation every Ok return passes the digest write; nothing is mutated after it; the up-to-date path mutates nothing; the component digest is written only after rustc succeeded; the skip needs digest match and existing rlib; only these functions touch the file system; stale component files are removed before the directory is enumerated (M-DIGEST).",
            "Durability (fsync) is not decided (acknowledged in the source); equality of regenerated text with a clean build is C13."),
    "C13": ("Inventory over every MIR body of the compiler crate: no iteration over hash containers, clocks, thread ids, environment, directory order or pointer-to-integer casts outside an audited table (one named function + reason per entry, with a live positive example) (M-DET); the one parallel section captures only shared references to cell-free data and writes only paths derived from its own item (M-PAR); directory configuration does not reach the emitters or the digest (M-DIRTAINT, MIR taint).",
            "Assumes determinism of the registry-built model code (eqlog-eqlog prebuilt by crates.io eqlog 0.8.0) the compiler links. Byte equality of two runs is not decided."),
    "C14": ("Persistence: no interior mutability in any container type (M-FREEZE), unsafe inventory = two audited blocks, no raw-pointer laundering (M-UNSAFE), no mapping nodes in live trees (M-MAPFREE); callbacks in (left, right) order on every path of union/difference (M-CBORDER); `len` maintained wherever `root` is replaced and taken from Node::size for constructed maps (M-LEN); every child assignment in insert/remove_min/remove_existing_node/rotations is followed by a size update on all paths to return and reaches balance; join balances every node it builds; (DELTA, GAMMA) = (3, 2) (M-SIZE, M-BAL).",
            "That rotations restore the weight-balance invariant (arithmetic over sizes) and agreement with a reference map are NOT decided; these are necessary structural conditions."),
    "C18": ("Structural necessary conditions of Kahn's algorithm in the MIR of morphism_toposort: Ok/Err are decided by, and lie on opposite sides of, the test whether objects with positive in-degree are left, evaluated after the work loop; every emitted morphism decrements its codomain's in-degree on all paths and nothing else does; increments and emissions are both guarded by the codomain lookup; an object is queued only on the zero side of a comparison of its decremented in-degree with 0 (M-KAHN). morphism_toposort uses the new and the old half of each of its three table pairs through the same operations (MIR taint per parameter through nested closures; combination by chain/or_else is symmetric) (M-SYM); the emitted call passes dom (order 1_0), cod (order 0_1) and object tables in the callee's positions and does not swallow its error (T-MOR).",
            "That the output is a topological order and that an error is returned iff there is a cycle is algorithmic: only the necessary conditions named here, split-independence (up to the order of equally ranked morphisms) and the interface are decided."),
    "C19": ("Exact on emitted text for every analysed program: env struct of each rule identical in module, embedded rule module and component; link_name = exported no_mangle name with equal parameter type; imports = exports; embedded rule code = component source; all model code outside rule modules identical between build modes (T-X, syntax-tree equality); in the generator each of these pieces has a single emitter reached by both display_module and display_ram_module (M-EMIT, MIR call graph).",
            "`Identical observable results` follows from the code being the same; not separately checked."),
    "C20": ("Inventory claim: the runtime crate calls no hash iteration, clock, thread, environment or pointer-exposing operation in any MIR body (M-DETRT); emitted code names no such facility and its model struct has only ordered/dense field types (T-DET); raw pointers are confined to the audited IterMut blocks and never compared, hashed or exposed (M-UNSAFE); no interior mutability (M-FREEZE).",
            "In safe Rust without those sources the transcript is a function of the call sequence; nothing further decided."),
})

NOT_APPLICABLE = {
    "C10": "The verdict for a program is the least fixed point of ~300 inference rules of eqlog.eql evaluated by registry-built code followed by value-level comparisons; no clause of the `iff` is visible in code shape and not already enforced by the 45 error tests. Static analysis is declined rather than dressed up (DESIGN.md section 7).",
}


def main():
    checks = []
    for pid in sorted(props.PROPERTIES):
        spec = props.PROPERTIES[pid]
        text, note = TEXT.get(pid, ("rules " + ", ".join(spec["rules"]), ""))
        checks.append({
            "property_id": pid,
            "quick_cmd": "./check %s --tier quick" % pid,
            "thorough_cmd": "./check %s --tier thorough" % pid,
            "evidence_file": "/verif/evidence/%s.json" % pid,
            "replay_cmd_template": "./check %s --replay {path}" % pid,
            "engine": "check",
            "level_claimed": {"category": spec["level"], "text": text, "design_ref": "DESIGN.md section 5, %s" % pid},
            "level_note": note,
            "technique": spec.get("technique", "static analysis: custom lint over the syntax tree of generated code (rules %s)" % ", ".join(spec["rules"])),
        })
    na = []
    all_ids = ["C%02d" % i for i in range(1, 21)]
    for pid in all_ids:
        if pid in props.PROPERTIES:
            continue
        na.append({"property_id": pid, "reason": NOT_APPLICABLE.get(pid, "check not implemented yet in this commit (planned, see DESIGN.md section 5)")})
    man = {
        "version": 1,
        "setup_cmd": "./setup.sh",
        "hooks": {
            "guard": "eqlog_verif",
            "enable": "no hook is needed: the checks read sources, MIR and emitted code; nothing in /repo is instrumented",
            "baseline_off_cmd": "cd /repo && cargo test --workspace --no-fail-fast --offline",
            "source_commits": [],
            "add_only": True,
        },
        "engines": [
            {"name": "check", "path": "/verif/check", "serves_properties": sorted(props.PROPERTIES),
             "kind_free_text": "python orchestrator: builds the eqlog CLI from /repo, lets it emit code (rustc replaced by /bin/true), parses with syn, evaluates rules, writes evidence"},
            {"name": "analyzer", "path": "/verif/analyzer", "serves_properties": sorted(props.PROPERTIES),
             "kind_free_text": "stable Rust + syn: Rust source -> JSON syntax tree"},
            {"name": "driver", "path": "/verif/driver", "serves_properties": [],
             "kind_free_text": "rustc_private driver (nightly): MIR/HIR facts with resolved callees"},
        ],
        "checks": checks,
        "not_applicable": na,
        "notes": "Static analysis only: no model, container, rule function or test is executed by any check. Genuine defects found are repaired by `fix:` commits in /repo or listed in /verif/known_findings.jsonl.",
    }
    with open(os.path.join(HERE, "MANIFEST.json"), "w") as f:
        json.dump(man, f, indent=1)
        f.write("\n")
    print("MANIFEST.json: %d checks, %d not applicable" % (len(checks), len(na)))


if __name__ == "__main__":
    main()
