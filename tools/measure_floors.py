#!/usr/bin/python3
"""Prints, per rule, the instance count used for the floor (corpus-only for emitted-code rules, total otherwise)."""
import os, sys, json
sys.path.insert(0, os.path.dirname(os.path.dirname(os.path.abspath(__file__))))
from vlib import props
from vlib.context import Context
ctx = Context(sys.argv[1] if len(sys.argv) > 1 else "quick")
out = {}
for g, fn in sorted(props.GROUPS.items()):
    for rr in fn(ctx):
        if rr.rule == "ANCHOR":
            continue
        n = rr.counts.get("inst_corpus", rr.instances)
        out[rr.rule] = max(out.get(rr.rule, 0), n)
print(json.dumps(out, indent=1, sort_keys=True))
