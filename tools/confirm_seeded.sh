#!/bin/bash
# usage: tools/confirm_seeded.sh <ID> [name]   -- confirms an independently produced seeded change in its scratch worktree
# /tmp/wt/<ID> (change applied, uncommitted) with deliverables in /tmp/wt/<ID>-demo, and files it under /verif/seeded/<name>.
set -u
ID=$1; NAME=${2:-$ID}
WT=/tmp/wt/$ID; DEMO=/tmp/wt/$ID-demo; OUT=/verif/seeded/$NAME
mkdir -p $OUT
export CARGO_NET_OFFLINE=true
LOG=$OUT/confirm.log; : > $LOG
echo "== worktree diff vs patch.diff" >> $LOG
git -C $WT diff -- eqlog eqlog-runtime eqlog-eqlog/src > /tmp/confirm_$ID.diff
if diff -q <(grep -v '^index ' /tmp/confirm_$ID.diff) <(grep -v '^index ' $DEMO/patch.diff) >/dev/null; then echo "patch.diff equals the worktree diff" >> $LOG; else echo "NOTE: patch.diff differs from the worktree diff; using the worktree diff" >> $LOG; fi
cp /tmp/confirm_$ID.diff $OUT/patch.diff
echo "== test suite with the change applied" >> $LOG
( cd $WT && cargo build --offline -p eqlog-runtime >/dev/null 2>&1; cargo test --workspace --no-fail-fast --offline 2>&1 | grep -E "^test result|FAILED|failed|^error" ) >> $LOG 2>&1
echo "== demonstration with the change applied (expected: non-zero exit)" >> $LOG
( cd $DEMO && timeout 1800 bash ./run.sh ) > $OUT/demo_with_change.log 2>&1; echo "exit=$?" >> $LOG; tail -5 $OUT/demo_with_change.log >> $LOG
echo "== demonstration without the change (expected: exit 0)" >> $LOG
git -C $WT stash -q
( cd $DEMO && timeout 1800 bash ./run.sh ) > $OUT/demo_without_change.log 2>&1; echo "exit=$?" >> $LOG; tail -5 $OUT/demo_without_change.log >> $LOG
git -C $WT stash pop -q
mkdir -p $OUT/demo
( cd $DEMO && tar cf - --exclude=target --exclude=work --exclude='*.rlib' --exclude='*.rmeta' --exclude='gen' . ) | ( cd $OUT/demo && tar xf - )
cat $LOG
