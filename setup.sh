#!/bin/bash
# Run once after a fresh restore, offline: builds the framework's two Rust tools and warms the caches that every
# check shares (the eqlog CLI built from /repo's working tree, emitted code, MIR facts).
set -e
cd "$(dirname "$0")"
export CARGO_NET_OFFLINE=true
mkdir -p .cache evidence
echo "[setup] building syn front end"
( cd analyzer && CARGO_TARGET_DIR=../.cache/analyzer-target cargo build --release --offline 2>&1 | tail -2 )
if [ -d driver ]; then
  echo "[setup] building rustc_private driver (nightly)"
  ( cd driver && CARGO_TARGET_DIR=../.cache/driver-target cargo +nightly build --release --offline 2>&1 | tail -2 )
fi
echo "[setup] warming caches (CLI build, emission, MIR facts)"
/usr/bin/python3 - <<'PY'
import os
import sys
sys.path.insert(0, '.')
from vlib.context import Context
# the quick tier with the seed the checks will be run with (the sampled enumerated rules depend on it)
ctx = Context("quick", int(os.environ.get("VERIF_SEED", "0") or 0))
ctx.programs()
try:
    from vlib import props
    for g in sorted(props.GROUPS):
        ctx.group(g, lambda g=g: props.GROUPS[g](ctx))
except Exception as e:
    print('[setup] warm-up note:', e)
print('[setup] tree hash', ctx.art.hash)
PY
echo "[setup] done"
