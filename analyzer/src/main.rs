//! E2 front end: parse Rust files with `syn` and dump a JSON syntax tree.
//!
//! usage: verif-analyzer <out.json> <file.rs>...      (one JSON object: {path: tree|{"error":..}})
//!        verif-analyzer --stdin-list <out.json>       (file list on stdin, one per line)
//!
//! The tree is deliberately lossy: types are token strings, parentheses are
//! dropped, attributes are token strings. Line numbers (`ln`) come from
//! proc-macro2 span locations. The rules live in the python orchestrator.

use proc_macro2::Span;
use quote::ToTokens;
use std::fmt::Write as _;
use syn::spanned::Spanned;

struct J {
    s: String,
}

fn esc(out: &mut String, s: &str) {
    out.push('"');
    for c in s.chars() {
        match c {
            '"' => out.push_str("\\\""),
            '\\' => out.push_str("\\\\"),
            '\n' => out.push_str("\\n"),
            '\r' => out.push_str("\\r"),
            '\t' => out.push_str("\\t"),
            c if (c as u32) < 0x20 => {
                let _ = write!(out, "\\u{:04x}", c as u32);
            }
            c => out.push(c),
        }
    }
    out.push('"');
}

/// Tiny JSON object builder.
struct Obj<'a> {
    j: &'a mut J,
    first: bool,
}

impl J {
    fn obj(&mut self, kind: &str, span: Span) -> Obj<'_> {
        self.s.push('{');
        self.s.push_str("\"k\":");
        esc(&mut self.s, kind);
        let ln = span.start().line;
        let _ = write!(self.s, ",\"ln\":{}", ln);
        Obj {
            j: self,
            first: false,
        }
    }
    fn str(&mut self, s: &str) {
        esc(&mut self.s, s);
    }
    fn null(&mut self) {
        self.s.push_str("null");
    }
}

impl<'a> Obj<'a> {
    fn key(&mut self, k: &str) -> &mut J {
        if !self.first {
            self.j.s.push(',');
        }
        self.first = false;
        esc(&mut self.j.s, k);
        self.j.s.push(':');
        self.j
    }
    fn s(&mut self, k: &str, v: &str) {
        self.key(k).str(v);
    }
    fn b(&mut self, k: &str, v: bool) {
        let j = self.key(k);
        j.s.push_str(if v { "true" } else { "false" });
    }
    fn n(&mut self, k: &str, v: usize) {
        let j = self.key(k);
        let _ = write!(j.s, "{}", v);
    }
    fn end(self) {
        self.j.s.push('}');
    }
}

fn toks<T: ToTokens>(t: &T) -> String {
    t.to_token_stream().to_string()
}

fn list<T>(j: &mut J, items: impl IntoIterator<Item = T>, mut f: impl FnMut(&mut J, T)) {
    j.s.push('[');
    let mut first = true;
    for it in items {
        if !first {
            j.s.push(',');
        }
        first = false;
        f(j, it);
    }
    j.s.push(']');
}

fn attrs(j: &mut J, attrs: &[syn::Attribute]) {
    list(j, attrs.iter(), |j, a| j.str(&toks(a)));
}

fn path_str(p: &syn::Path) -> String {
    let mut s = String::new();
    if p.leading_colon.is_some() {
        s.push_str("::");
    }
    for (i, seg) in p.segments.iter().enumerate() {
        if i > 0 {
            s.push_str("::");
        }
        s.push_str(&seg.ident.to_string());
    }
    s
}

fn path_generics(p: &syn::Path) -> String {
    let mut s = String::new();
    for seg in p.segments.iter() {
        if !matches!(seg.arguments, syn::PathArguments::None) {
            s.push_str(&toks(&seg.arguments));
        }
    }
    s
}

fn opt_expr(j: &mut J, e: Option<&syn::Expr>) {
    match e {
        Some(e) => expr(j, e),
        None => j.null(),
    }
}

fn block(j: &mut J, b: &syn::Block) {
    let mut o = j.obj("block", b.span());
    o.n("end", b.brace_token.span.close().end().line);
    list(o.key("s"), b.stmts.iter(), stmt);
    o.end();
}

fn stmt(j: &mut J, s: &syn::Stmt) {
    match s {
        syn::Stmt::Local(l) => {
            let mut o = j.obj("let", l.span());
            attrs(o.key("attrs"), &l.attrs);
            pat(o.key("p"), &l.pat);
            match &l.init {
                Some(init) => {
                    expr(o.key("e"), &init.expr);
                    match &init.diverge {
                        Some((_, d)) => expr(o.key("else"), d),
                        None => o.key("else").null(),
                    }
                }
                None => {
                    o.key("e").null();
                    o.key("else").null();
                }
            }
            o.end();
        }
        syn::Stmt::Item(i) => {
            let mut o = j.obj("item", i.span());
            item(o.key("i"), i);
            o.end();
        }
        syn::Stmt::Expr(e, semi) => {
            let mut o = j.obj("expr", e.span());
            o.b("semi", semi.is_some());
            expr(o.key("e"), e);
            o.end();
        }
        syn::Stmt::Macro(m) => {
            let mut o = j.obj("expr", m.span());
            o.b("semi", m.semi_token.is_some());
            {
                let j = o.key("e");
                let mut o2 = j.obj("macro", m.span());
                o2.s("p", &path_str(&m.mac.path));
                o2.s("t", &m.mac.tokens.to_string());
                o2.end();
            }
            o.end();
        }
    }
}

fn pat(j: &mut J, p: &syn::Pat) {
    match p {
        syn::Pat::Ident(i) => {
            let mut o = j.obj("pid", i.span());
            o.s("n", &i.ident.to_string());
            o.b("mut", i.mutability.is_some());
            o.b("ref", i.by_ref.is_some());
            match &i.subpat {
                Some((_, sp)) => pat(o.key("sub"), sp),
                None => o.key("sub").null(),
            }
            o.end();
        }
        syn::Pat::Tuple(t) => {
            let mut o = j.obj("ptuple", t.span());
            list(o.key("e"), t.elems.iter(), pat);
            o.end();
        }
        syn::Pat::Slice(t) => {
            let mut o = j.obj("pslice", t.span());
            list(o.key("e"), t.elems.iter(), pat);
            o.end();
        }
        syn::Pat::TupleStruct(t) => {
            let mut o = j.obj("ptstruct", t.span());
            o.s("p", &path_str(&t.path));
            list(o.key("e"), t.elems.iter(), pat);
            o.end();
        }
        syn::Pat::Struct(t) => {
            let mut o = j.obj("pstruct", t.span());
            o.s("p", &path_str(&t.path));
            list(o.key("f"), t.fields.iter(), |j, f| {
                let mut o = j.obj("pfield", f.span());
                o.s("n", &toks(&f.member));
                pat(o.key("p"), &f.pat);
                o.end();
            });
            o.b("rest", t.rest.is_some());
            o.end();
        }
        syn::Pat::Wild(w) => {
            j.obj("pwild", w.span()).end();
        }
        syn::Pat::Path(pp) => {
            let mut o = j.obj("ppath", pp.span());
            o.s("p", &path_str(&pp.path));
            o.end();
        }
        syn::Pat::Lit(l) => {
            let mut o = j.obj("plit", l.span());
            o.s("v", &toks(l));
            o.end();
        }
        syn::Pat::Reference(r) => {
            let mut o = j.obj("pref", r.span());
            o.b("mut", r.mutability.is_some());
            pat(o.key("p"), &r.pat);
            o.end();
        }
        syn::Pat::Type(t) => {
            let mut o = j.obj("ptype", t.span());
            pat(o.key("p"), &t.pat);
            o.s("t", &toks(&t.ty));
            o.end();
        }
        syn::Pat::Or(t) => {
            let mut o = j.obj("por", t.span());
            list(o.key("e"), t.cases.iter(), pat);
            o.end();
        }
        syn::Pat::Paren(p) => pat(j, &p.pat),
        syn::Pat::Rest(r) => {
            j.obj("prest", r.span()).end();
        }
        other => {
            let mut o = j.obj("pother", other.span());
            o.s("t", &toks(other));
            o.end();
        }
    }
}

fn expr(j: &mut J, e: &syn::Expr) {
    use syn::Expr::*;
    match e {
        Path(p) => {
            let mut o = j.obj("path", p.span());
            o.s("p", &path_str(&p.path));
            let g = path_generics(&p.path);
            if !g.is_empty() {
                o.s("g", &g);
            }
            if let Some(q) = &p.qself {
                o.s("qself", &toks(&q.ty));
            }
            o.end();
        }
        Lit(l) => {
            let mut o = j.obj("lit", l.span());
            o.s("v", &toks(&l.lit));
            o.end();
        }
        Call(c) => {
            let mut o = j.obj("call", c.span());
            expr(o.key("f"), &c.func);
            list(o.key("a"), c.args.iter(), expr);
            o.end();
        }
        MethodCall(c) => {
            let mut o = j.obj("mcall", c.span());
            expr(o.key("r"), &c.receiver);
            o.s("m", &c.method.to_string());
            if let Some(t) = &c.turbofish {
                o.s("tf", &toks(t));
            }
            list(o.key("a"), c.args.iter(), expr);
            o.end();
        }
        Field(f) => {
            let mut o = j.obj("field", f.span());
            expr(o.key("b"), &f.base);
            o.s("m", &toks(&f.member));
            o.end();
        }
        Binary(b) => {
            let mut o = j.obj("bin", b.span());
            o.s("op", &toks(&b.op));
            expr(o.key("lhs"), &b.left);
            expr(o.key("rhs"), &b.right);
            o.end();
        }
        Unary(u) => {
            let mut o = j.obj("un", u.span());
            o.s("op", &toks(&u.op));
            expr(o.key("e"), &u.expr);
            o.end();
        }
        Reference(r) => {
            let mut o = j.obj("ref", r.span());
            o.b("mut", r.mutability.is_some());
            expr(o.key("e"), &r.expr);
            o.end();
        }
        RawAddr(r) => {
            let mut o = j.obj("rawaddr", r.span());
            o.b("mut", matches!(r.mutability, syn::PointerMutability::Mut(_)));
            expr(o.key("e"), &r.expr);
            o.end();
        }
        If(i) => {
            let mut o = j.obj("if", i.span());
            expr(o.key("c"), &i.cond);
            block(o.key("t"), &i.then_branch);
            match &i.else_branch {
                Some((_, e)) => expr(o.key("e"), e),
                None => o.key("e").null(),
            }
            o.end();
        }
        Let(l) => {
            let mut o = j.obj("letx", l.span());
            pat(o.key("p"), &l.pat);
            expr(o.key("e"), &l.expr);
            o.end();
        }
        ForLoop(f) => {
            let mut o = j.obj("for", f.span());
            attrs(o.key("attrs"), &f.attrs);
            pat(o.key("p"), &f.pat);
            expr(o.key("e"), &f.expr);
            block(o.key("b"), &f.body);
            o.end();
        }
        Loop(l) => {
            let mut o = j.obj("loop", l.span());
            block(o.key("b"), &l.body);
            o.end();
        }
        While(w) => {
            let mut o = j.obj("while", w.span());
            expr(o.key("c"), &w.cond);
            block(o.key("b"), &w.body);
            o.end();
        }
        Match(m) => {
            let mut o = j.obj("match", m.span());
            expr(o.key("e"), &m.expr);
            list(o.key("arms"), m.arms.iter(), |j, a| {
                let mut o = j.obj("arm", a.span());
                pat(o.key("p"), &a.pat);
                match &a.guard {
                    Some((_, g)) => expr(o.key("g"), g),
                    None => o.key("g").null(),
                }
                expr(o.key("b"), &a.body);
                o.end();
            });
            o.end();
        }
        Closure(c) => {
            let mut o = j.obj("closure", c.span());
            o.b("move", c.capture.is_some());
            list(o.key("params"), c.inputs.iter(), pat);
            o.s("ret", &toks(&c.output));
            expr(o.key("b"), &c.body);
            o.end();
        }
        Block(b) => {
            if b.label.is_none() && b.attrs.is_empty() {
                block(j, &b.block);
            } else {
                let mut o = j.obj("lblock", b.span());
                attrs(o.key("attrs"), &b.attrs);
                block(o.key("b"), &b.block);
                o.end();
            }
        }
        Unsafe(u) => {
            let mut o = j.obj("unsafe", u.span());
            block(o.key("b"), &u.block);
            o.end();
        }
        Return(r) => {
            let mut o = j.obj("return", r.span());
            opt_expr(o.key("e"), r.expr.as_deref());
            o.end();
        }
        Break(r) => {
            let mut o = j.obj("break", r.span());
            opt_expr(o.key("e"), r.expr.as_deref());
            o.end();
        }
        Continue(c) => {
            j.obj("continue", c.span()).end();
        }
        Assign(a) => {
            let mut o = j.obj("assign", a.span());
            expr(o.key("lhs"), &a.left);
            expr(o.key("rhs"), &a.right);
            o.end();
        }
        Struct(s) => {
            let mut o = j.obj("struct", s.span());
            o.s("p", &path_str(&s.path));
            list(o.key("f"), s.fields.iter(), |j, f| {
                let mut o = j.obj("fv", f.span());
                o.s("n", &toks(&f.member));
                o.b("short", f.colon_token.is_none());
                expr(o.key("e"), &f.expr);
                o.end();
            });
            opt_expr(o.key("rest"), s.rest.as_deref());
            o.end();
        }
        Tuple(t) => {
            let mut o = j.obj("tuple", t.span());
            list(o.key("e"), t.elems.iter(), expr);
            o.end();
        }
        Array(t) => {
            let mut o = j.obj("array", t.span());
            list(o.key("e"), t.elems.iter(), expr);
            o.end();
        }
        Repeat(r) => {
            let mut o = j.obj("repeat", r.span());
            expr(o.key("e"), &r.expr);
            expr(o.key("len"), &r.len);
            o.end();
        }
        Index(i) => {
            let mut o = j.obj("index", i.span());
            expr(o.key("b"), &i.expr);
            expr(o.key("i"), &i.index);
            o.end();
        }
        Macro(m) => {
            let mut o = j.obj("macro", m.span());
            o.s("p", &path_str(&m.mac.path));
            o.s("t", &m.mac.tokens.to_string());
            o.end();
        }
        Paren(p) => expr(j, &p.expr),
        Group(g) => expr(j, &g.expr),
        Cast(c) => {
            let mut o = j.obj("cast", c.span());
            expr(o.key("e"), &c.expr);
            o.s("t", &toks(&c.ty));
            o.end();
        }
        Try(t) => {
            let mut o = j.obj("try", t.span());
            expr(o.key("e"), &t.expr);
            o.end();
        }
        Range(r) => {
            let mut o = j.obj("range", r.span());
            opt_expr(o.key("lo"), r.start.as_deref());
            opt_expr(o.key("hi"), r.end.as_deref());
            o.s("op", &toks(&r.limits));
            o.end();
        }
        other => {
            let mut o = j.obj("other", other.span());
            o.s("t", &toks(other));
            o.end();
        }
    }
}

fn vis_str(v: &syn::Visibility) -> String {
    toks(v)
}

fn sig(o: &mut Obj<'_>, s: &syn::Signature) {
    o.s("n", &s.ident.to_string());
    o.b("unsafe", s.unsafety.is_some());
    o.s("generics", &toks(&s.generics));
    list(o.key("params"), s.inputs.iter(), |j, a| match a {
        syn::FnArg::Receiver(r) => {
            let mut o = j.obj("self", r.span());
            o.s("t", &toks(r));
            o.b("mut", r.mutability.is_some());
            o.b("ref", r.reference.is_some());
            o.end();
        }
        syn::FnArg::Typed(t) => {
            let mut o = j.obj("param", t.span());
            pat(o.key("p"), &t.pat);
            o.s("t", &toks(&t.ty));
            o.end();
        }
    });
    o.s(
        "ret",
        &match &s.output {
            syn::ReturnType::Default => String::new(),
            syn::ReturnType::Type(_, t) => toks(t),
        },
    );
}

fn fields(j: &mut J, f: &syn::Fields) {
    list(j, f.iter(), |j, f| {
        let mut o = j.obj("fielddef", f.span());
        o.s(
            "n",
            &f.ident
                .as_ref()
                .map(|i| i.to_string())
                .unwrap_or_default(),
        );
        o.s("vis", &vis_str(&f.vis));
        o.s("t", &toks(&f.ty));
        o.end();
    });
}

fn item(j: &mut J, i: &syn::Item) {
    match i {
        syn::Item::Fn(f) => {
            let mut o = j.obj("fn", f.span());
            attrs(o.key("attrs"), &f.attrs);
            o.s("vis", &vis_str(&f.vis));
            sig(&mut o, &f.sig);
            o.n("end", f.block.brace_token.span.close().end().line);
            block(o.key("b"), &f.block);
            o.end();
        }
        syn::Item::Struct(s) => {
            let mut o = j.obj("structdef", s.span());
            attrs(o.key("attrs"), &s.attrs);
            o.s("vis", &vis_str(&s.vis));
            o.s("n", &s.ident.to_string());
            o.s("generics", &toks(&s.generics));
            o.b("tuple", matches!(s.fields, syn::Fields::Unnamed(_)));
            fields(o.key("fields"), &s.fields);
            o.end();
        }
        syn::Item::Enum(e) => {
            let mut o = j.obj("enumdef", e.span());
            attrs(o.key("attrs"), &e.attrs);
            o.s("vis", &vis_str(&e.vis));
            o.s("n", &e.ident.to_string());
            o.s("generics", &toks(&e.generics));
            list(o.key("variants"), e.variants.iter(), |j, v| {
                let mut o = j.obj("variant", v.span());
                o.s("n", &v.ident.to_string());
                fields(o.key("fields"), &v.fields);
                o.end();
            });
            o.end();
        }
        syn::Item::Impl(im) => {
            let mut o = j.obj("impl", im.span());
            attrs(o.key("attrs"), &im.attrs);
            o.b("unsafe", im.unsafety.is_some());
            o.s("generics", &toks(&im.generics));
            o.s("ty", &toks(&im.self_ty));
            match &im.trait_ {
                Some((neg, p, _)) => {
                    let mut s = String::new();
                    if neg.is_some() {
                        s.push('!');
                    }
                    s.push_str(&toks(p));
                    o.s("trait", &s);
                }
                None => o.key("trait").null(),
            }
            list(o.key("items"), im.items.iter(), |j, it| match it {
                syn::ImplItem::Fn(f) => {
                    let mut o = j.obj("fn", f.span());
                    attrs(o.key("attrs"), &f.attrs);
                    o.s("vis", &vis_str(&f.vis));
                    sig(&mut o, &f.sig);
                    o.n("end", f.block.brace_token.span.close().end().line);
                    block(o.key("b"), &f.block);
                    o.end();
                }
                syn::ImplItem::Const(c) => {
                    let mut o = j.obj("const", c.span());
                    o.s("n", &c.ident.to_string());
                    o.s("t", &toks(&c.ty));
                    expr(o.key("e"), &c.expr);
                    o.end();
                }
                syn::ImplItem::Type(t) => {
                    let mut o = j.obj("typealias", t.span());
                    o.s("n", &t.ident.to_string());
                    o.s("t", &toks(&t.ty));
                    o.end();
                }
                other => {
                    let mut o = j.obj("otheritem", other.span());
                    o.s("t", &toks(other));
                    o.end();
                }
            });
            o.end();
        }
        syn::Item::Mod(m) => {
            let mut o = j.obj("mod", m.span());
            attrs(o.key("attrs"), &m.attrs);
            o.s("vis", &vis_str(&m.vis));
            o.s("n", &m.ident.to_string());
            match &m.content {
                Some((br, items)) => {
                    o.n("end", br.span.close().end().line);
                    list(o.key("items"), items.iter(), item);
                }
                None => o.key("items").null(),
            }
            o.end();
        }
        syn::Item::Use(u) => {
            let mut o = j.obj("use", u.span());
            attrs(o.key("attrs"), &u.attrs);
            o.s("vis", &vis_str(&u.vis));
            o.s("t", &toks(&u.tree));
            o.end();
        }
        syn::Item::Const(c) => {
            let mut o = j.obj("const", c.span());
            attrs(o.key("attrs"), &c.attrs);
            o.s("vis", &vis_str(&c.vis));
            o.s("n", &c.ident.to_string());
            o.s("t", &toks(&c.ty));
            expr(o.key("e"), &c.expr);
            o.end();
        }
        syn::Item::Static(c) => {
            let mut o = j.obj("static", c.span());
            attrs(o.key("attrs"), &c.attrs);
            o.s("vis", &vis_str(&c.vis));
            o.s("n", &c.ident.to_string());
            o.s("t", &toks(&c.ty));
            o.b("mut", matches!(c.mutability, syn::StaticMutability::Mut(_)));
            expr(o.key("e"), &c.expr);
            o.end();
        }
        syn::Item::Type(t) => {
            let mut o = j.obj("typealias", t.span());
            o.s("vis", &vis_str(&t.vis));
            o.s("n", &t.ident.to_string());
            o.s("t", &toks(&t.ty));
            o.end();
        }
        syn::Item::ForeignMod(fm) => {
            let mut o = j.obj("extern", fm.span());
            attrs(o.key("attrs"), &fm.attrs);
            o.b("unsafe", fm.unsafety.is_some());
            o.s("abi", &toks(&fm.abi));
            list(o.key("items"), fm.items.iter(), |j, it| match it {
                syn::ForeignItem::Fn(f) => {
                    let mut o = j.obj("ffn", f.span());
                    attrs(o.key("attrs"), &f.attrs);
                    o.s("vis", &vis_str(&f.vis));
                    sig(&mut o, &f.sig);
                    o.end();
                }
                syn::ForeignItem::Verbatim(ts) => {
                    // `safe fn name(args);` is parsed as verbatim by syn 2.
                    let mut o = j.obj("fverbatim", ts.span());
                    o.s("t", &ts.to_string());
                    o.end();
                }
                other => {
                    let mut o = j.obj("otheritem", other.span());
                    o.s("t", &toks(other));
                    o.end();
                }
            });
            o.end();
        }
        syn::Item::Trait(t) => {
            let mut o = j.obj("trait", t.span());
            o.s("n", &t.ident.to_string());
            o.b("unsafe", t.unsafety.is_some());
            o.s("t", &toks(t));
            o.end();
        }
        syn::Item::Macro(m) => {
            let mut o = j.obj("macroitem", m.span());
            o.s("p", &path_str(&m.mac.path));
            o.s("t", &m.mac.tokens.to_string());
            o.end();
        }
        other => {
            let mut o = j.obj("otheritem", other.span());
            o.s("t", &toks(other));
            o.end();
        }
    }
}

fn file_json(j: &mut J, path: &str) {
    let src = match std::fs::read_to_string(path) {
        Ok(s) => s,
        Err(e) => {
            j.s.push_str("{\"error\":");
            j.str(&format!("read: {e}"));
            j.s.push('}');
            return;
        }
    };
    match syn::parse_file(&src) {
        Ok(f) => {
            j.s.push_str("{\"k\":\"file\",\"attrs\":");
            attrs(j, &f.attrs);
            j.s.push_str(",\"items\":");
            list(j, f.items.iter(), item);
            j.s.push('}');
        }
        Err(e) => {
            let sp = e.span().start();
            j.s.push_str("{\"error\":");
            j.str(&format!("parse: {e} at {}:{}", sp.line, sp.column));
            j.s.push('}');
        }
    }
}

/// `--tokens <out.json> <file.rs>...`: flat token dump per file:
/// [[line, kind, text], ...] with kind in {i (ident), p (punct), l (literal), o/c (open/close delimiter)}.
fn tokens_json(j: &mut J, path: &str) {
    use proc_macro2::{Delimiter, TokenStream, TokenTree};
    fn emit(j: &mut J, first: &mut bool, line: usize, kind: &str, text: &str) {
        if !*first {
            j.s.push(',');
        }
        *first = false;
        let _ = write!(j.s, "[{},\"{}\",", line, kind);
        esc(&mut j.s, text);
        j.s.push(']');
    }
    fn walk(j: &mut J, ts: TokenStream, first: &mut bool) {
        for tt in ts {
            match tt {
                TokenTree::Group(g) => {
                    let (o, c) = match g.delimiter() {
                        Delimiter::Parenthesis => ("(", ")"),
                        Delimiter::Brace => ("{", "}"),
                        Delimiter::Bracket => ("[", "]"),
                        Delimiter::None => ("", ""),
                    };
                    emit(j, first, g.span_open().start().line, "o", o);
                    walk(j, g.stream(), first);
                    emit(j, first, g.span_close().start().line, "c", c);
                }
                TokenTree::Ident(i) => emit(j, first, i.span().start().line, "i", &i.to_string()),
                TokenTree::Punct(p) => {
                    emit(j, first, p.span().start().line, "p", &p.as_char().to_string())
                }
                TokenTree::Literal(l) => emit(j, first, l.span().start().line, "l", &l.to_string()),
            }
        }
    }
    let src = match std::fs::read_to_string(path) {
        Ok(s) => s,
        Err(e) => {
            j.s.push_str("{\"error\":");
            j.str(&format!("read: {e}"));
            j.s.push('}');
            return;
        }
    };
    match src.parse::<TokenStream>() {
        Ok(ts) => {
            j.s.push('[');
            let mut first = true;
            walk(j, ts, &mut first);
            j.s.push(']');
        }
        Err(e) => {
            j.s.push_str("{\"error\":");
            j.str(&format!("lex: {e}"));
            j.s.push('}');
        }
    }
}

fn main() {
    let mut args: Vec<String> = std::env::args().skip(1).collect();
    let mut tokens_mode = false;
    if args.first().map(|s| s.as_str()) == Some("--tokens") {
        tokens_mode = true;
        args.remove(0);
    }
    if args.is_empty() {
        eprintln!("usage: verif-analyzer [--tokens] <out.json> <file.rs>... | --stdin-list");
        std::process::exit(2);
    }
    let out = args.remove(0);
    let files: Vec<String> = if args.first().map(|s| s.as_str()) == Some("--stdin-list") {
        use std::io::BufRead;
        std::io::stdin()
            .lock()
            .lines()
            .map(|l| l.unwrap())
            .filter(|l| !l.trim().is_empty())
            .collect()
    } else {
        args
    };
    let mut j = J { s: String::new() };
    j.s.push('{');
    for (i, f) in files.iter().enumerate() {
        if i > 0 {
            j.s.push(',');
        }
        j.str(f);
        j.s.push(':');
        if tokens_mode {
            tokens_json(&mut j, f);
        } else {
            file_json(&mut j, f);
        }
    }
    j.s.push('}');
    std::fs::write(&out, j.s).expect("write output");
}
